#!/bin/sh
# MANIFEST.setup_cmd: cold-build everything the checks need, offline, from files on disk.
set -e
cd "$(dirname "$0")"
export CARGO_NET_OFFLINE=true
mkdir -p target evidence replays/found
python3 tools/gen_wrappers.py
(cd harness && cargo build --release --offline 2>&1 | tail -3)
cargo build --offline --manifest-path /repo/Cargo.toml --bin aisparser --target-dir /verif/target/cli 2>&1 | tail -2
target/harness/release/aisverif selftest
