#!/bin/sh
# MANIFEST.setup_cmd: cold-build everything the checks need, offline, from files on disk.
set -e
cd "$(dirname "$0")"
export CARGO_NET_OFFLINE=true
(cd harness && cargo build --release --offline 2>&1 | tail -3)
