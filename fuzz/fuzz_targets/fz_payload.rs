//! Coverage-guided target over the payload functions (DESIGN.md section 6).
//!
//! Input: [mode][fill][bytes...]; mode even: messages::parse(bytes) against the reference
//! layout for the property named by AISVERIF_ARM; mode odd: messages::unarmor(bytes, fill % 6)
//! against the bit-vector reference.
#![no_main]
use libfuzzer_sys::fuzz_target;

fuzz_target!(|data: &[u8]| {
    aisverif::fuzzglue::payload_target(data);
});
