//! Coverage-guided target over line histories (DESIGN.md section 6).
//!
//! Input: first byte = decode bitmask, the rest is text split on '\n' into lines. Every line has
//! the two characters after its '*' overwritten with the correct checksum (that is what gets the
//! fuzzer past the checksum wall) unless it ends with '~' (the '~' is then removed and the line is
//! left alone). The semantic oracle of the property named by AISVERIF_ARM runs inside the target.
#![no_main]
use libfuzzer_sys::fuzz_target;

fuzz_target!(|data: &[u8]| {
    aisverif::fuzzglue::lines_target(data);
});
