//! exec_real <corpus-file>: replays a corpus written by `aisverif` and prints one canonical line per
//! library call. Records:  H <n> / n x "<0|1> <hex>"   |   P <hex>   |   U <fill> <hex>
use std::io::{BufRead, Write};

include!("../../src/canon_body.rs");

fn unhex(s: &str) -> Vec<u8> {
    let b = s.as_bytes();
    (0..b.len() / 2).map(|i| u8::from_str_radix(std::str::from_utf8(&b[2 * i..2 * i + 2]).unwrap(), 16).unwrap()).collect()
}

fn main() {
    std::panic::set_hook(Box::new(|_| {}));
    let path = std::env::args().nth(1).expect("corpus file");
    let f = std::io::BufReader::new(std::fs::File::open(path).expect("open corpus"));
    let out = std::io::stdout();
    let mut out = std::io::BufWriter::new(out.lock());
    let mut lines = f.lines();
    while let Some(Ok(l)) = lines.next() {
        let mut it = l.split(' ');
        match it.next() {
            Some("H") => {
                let n: usize = it.next().unwrap().parse().unwrap();
                let mut p = ais::AisParser::new();
                for _ in 0..n {
                    let r = lines.next().unwrap().unwrap();
                    let (d, h) = r.split_once(' ').unwrap();
                    writeln!(out, "{}", canon_line(&mut p, &unhex(h), d == "1")).unwrap();
                }
            }
            Some("P") => writeln!(out, "{}", canon_parse(&unhex(it.next().unwrap_or("")))).unwrap(),
            Some("U") => {
                let fill: usize = it.next().unwrap().parse().unwrap();
                writeln!(out, "{}", canon_unarmor(&unhex(it.next().unwrap_or("")), fill)).unwrap();
            }
            _ => {}
        }
    }
}
