// Canonical one-line rendering of what the library returns, shared verbatim (include!) by the
// in-process adapters (wrapper crates) and by exec_real (the real `ais` package): the fidelity pass
// compares these strings. `ais` must be in scope as the crate under test.

fn canon_err(e: &ais::errors::Error) -> String {
    match e {
        ais::errors::Error::Nmea { .. } => "Err(Nmea)".to_string(),
        ais::errors::Error::Checksum { expected, found } => format!("Err(Checksum {:02x} {:02x})", expected, found),
    }
}

pub fn canon_line(p: &mut ais::AisParser, line: &[u8], decode: bool) -> String {
    match std::panic::catch_unwind(std::panic::AssertUnwindSafe(|| match p.parse(line, decode) {
        Ok(f) => format!("Ok({:?})", f),
        Err(e) => canon_err(&e),
    })) {
        Ok(s) => s,
        Err(_) => "PANIC".to_string(),
    }
}

pub fn canon_parse(bytes: &[u8]) -> String {
    match std::panic::catch_unwind(|| match ais::messages::parse(bytes) {
        Ok(m) => format!("Ok({:?})", m),
        Err(e) => canon_err(&e),
    }) {
        Ok(s) => s,
        Err(_) => "PANIC".to_string(),
    }
}

pub fn canon_unarmor(data: &[u8], fill: usize) -> String {
    match std::panic::catch_unwind(|| match ais::messages::unarmor(data, fill) {
        Ok(v) => format!("Ok({:?})", &v[..]),
        Err(e) => canon_err(&e),
    }) {
        Ok(s) => s,
        Err(_) => "PANIC".to_string(),
    }
}
