//! Strategies and sweeps producing unarmoured message bytes. Values are *placed* into field
//! spans reported by the reference layout (refmodel::layout), never produced by calling the
//! library.

use crate::engine::Input;
use crate::refmodel::armor;
use crate::refmodel::layout::{self, get_bits, refdecode, set_bits, FieldExp, Hint, Prop, RefMsg};
use proptest::prelude::*;

/// how to choose the value written into a field span
#[derive(Clone, Debug)]
pub enum ValSel {
    Zero,
    One,
    Max,
    MaxMinus1,
    /// sentinel number `which` (mod the number of sentinels of the field) plus `delta`
    NearSentinel { which: u8, delta: i8 },
    OneHot(u8),
    Uniform(u64),
    /// 6-bit character codes for text spans (cycled over the span)
    Chars(Vec<u8>),
}

pub fn valsel() -> impl Strategy<Value = ValSel> {
    prop_oneof![
        1 => Just(ValSel::Zero),
        1 => Just(ValSel::One),
        2 => Just(ValSel::Max),
        1 => Just(ValSel::MaxMinus1),
        4 => (any::<u8>(), -2i8..=2).prop_map(|(which, delta)| ValSel::NearSentinel { which, delta }),
        2 => any::<u8>().prop_map(ValSel::OneHot),
        4 => any::<u64>().prop_map(ValSel::Uniform),
        3 => proptest::collection::vec(text_code(), 1..24).prop_map(ValSel::Chars),
    ]
}

/// 6-bit character codes with plenty of '@' (0), space (32) and the second half of the table
pub fn text_code() -> impl Strategy<Value = u8> {
    prop_oneof![
        3 => Just(0u8),
        3 => Just(32u8),
        4 => 1u8..32,
        4 => 33u8..64,
        1 => 0u8..64,
    ]
}

fn mask(w: usize) -> u64 {
    if w >= 64 {
        u64::MAX
    } else {
        (1u64 << w) - 1
    }
}

/// write the selected value into the span of `f`
pub fn apply(bytes: &mut [u8], f: &FieldExp, sel: &ValSel) {
    if f.width == 0 {
        return;
    }
    if f.width > 64 {
        // text or byte spans: fill 6-bit-wise / pattern-wise
        match sel {
            ValSel::Chars(cs) => {
                let n = f.width / 6;
                for i in 0..n {
                    set_bits(bytes, f.start + 6 * i, 6, cs[i % cs.len()] as u64);
                }
            }
            ValSel::Zero => {
                for i in 0..f.width {
                    set_bits(bytes, f.start + i, 1, 0);
                }
            }
            ValSel::Max => {
                for i in 0..f.width {
                    set_bits(bytes, f.start + i, 1, 1);
                }
            }
            ValSel::OneHot(k) => {
                for i in 0..f.width {
                    set_bits(bytes, f.start + i, 1, (i == (*k as usize * f.width) >> 8) as u64);
                }
            }
            ValSel::Uniform(u) => {
                let mut x = *u;
                for i in (0..f.width).step_by(8) {
                    x = crate::util::mix64(x);
                    let w = (f.width - i).min(8);
                    set_bits(bytes, f.start + i, w, x & mask(w));
                }
            }
            _ => {}
        }
        return;
    }
    let m = mask(f.width);
    let v = match sel {
        ValSel::Zero => 0,
        ValSel::One => 1,
        ValSel::Max => m,
        ValSel::MaxMinus1 => m.wrapping_sub(1) & m,
        ValSel::NearSentinel { which, delta } => match &f.hint {
            Hint::Sentinels(s) if !s.is_empty() => (s[*which as usize % s.len()] as i64).wrapping_add(*delta as i64) as u64 & m,
            _ => (*which as u64) & m,
        },
        ValSel::OneHot(k) => 1u64 << ((*k as usize * f.width) >> 8),
        ValSel::Uniform(u) => *u & m,
        ValSel::Chars(cs) => {
            let mut v = 0u64;
            for i in 0..(f.width / 6).max(1) {
                v = (v << 6) | cs[i % cs.len()] as u64;
            }
            v & m
        }
    };
    set_bits(bytes, f.start, f.width, v);
}

#[derive(Clone, Debug)]
pub struct Plan {
    pub type_sel: u16,
    pub len_sel: u16,
    /// 0 zeros, 1 ones, otherwise random
    pub base_kind: u8,
    pub noise: Vec<u8>,
    pub edits: Vec<(u16, bool, ValSel)>,
}

/// which lengths a plan may choose from
#[derive(Clone, Copy, Debug, PartialEq, Eq)]
pub enum LenMode {
    /// the lengths at which the layout takes its specified shapes
    Standard,
    /// every length from 0 to the protocol maximum + 8
    Any,
}

pub fn lengths_for(t: u8, mode: LenMode) -> Vec<usize> {
    match mode {
        LenMode::Standard => layout::standard_lengths(t),
        LenMode::Any => {
            let max = layout::length_limits(t).map(|(_, m)| layout::bytes_after_armor(m)).unwrap_or(30);
            (0..=max + 8).collect()
        }
    }
}

pub fn pick<T: Clone>(v: &[T], sel: u16) -> T {
    v[(sel as usize * v.len()) >> 16].clone()
}

/// Build the bytes a plan describes. `focus`: edits flagged `true` only choose among fields
/// that carry an expectation owned by this property.
pub fn realise(plan: &Plan, types: &[u8], mode: LenMode, focus: Prop) -> Vec<u8> {
    let t = pick(types, plan.type_sel);
    let lens = lengths_for(t, mode);
    let len = if lens.is_empty() { 21 } else { pick(&lens, plan.len_sel) };
    let mut bytes: Vec<u8> = match plan.base_kind {
        0 => vec![0u8; len],
        1 => vec![0xffu8; len],
        _ => (0..len).map(|i| plan.noise[i % plan.noise.len()]).collect(),
    };
    if len == 0 {
        return bytes;
    }
    set_bits(&mut bytes, 0, 6.min(len * 8), t as u64);
    for (fsel, focused, vs) in &plan.edits {
        let dec = match refdecode(&bytes) {
            RefMsg::Msg(d) => d,
            _ => break,
        };
        let mut cands: Vec<&FieldExp> = dec
            .fields
            .iter()
            .filter(|f| f.width > 0 && f.path != "message_type")
            .filter(|f| !*focused || f.checks.iter().any(|(p, _)| *p == focus))
            .collect();
        if cands.is_empty() {
            // a property that owns no field of this layout (C09 owns only the type): any field
            cands = dec.fields.iter().filter(|f| f.width > 0 && f.path != "message_type").collect();
        }
        if cands.is_empty() {
            continue;
        }
        let f = cands[(*fsel as usize * cands.len()) >> 16].clone();
        apply(&mut bytes, &f, vs);
    }
    bytes
}

pub fn plan(max_edits: usize) -> impl Strategy<Value = Plan> {
    (
        any::<u16>(),
        any::<u16>(),
        prop_oneof![1 => Just(0u8), 1 => Just(1u8), 6 => Just(2u8)],
        proptest::collection::vec(any::<u8>(), 48),
        proptest::collection::vec((any::<u16>(), prop::bool::weighted(0.7), valsel()), 0..=max_edits),
    )
        .prop_map(|(type_sel, len_sel, base_kind, noise, edits)| Plan { type_sel, len_sel, base_kind, noise, edits })
}

/// Payload inputs for `messages::parse`, a fraction of them routed through the sentence path.
pub fn payload_inputs(types: Vec<u8>, mode: LenMode, focus: Prop, max_edits: usize, sentence_share: f64) -> impl Strategy<Value = Input> {
    (plan(max_edits), prop::bool::weighted(sentence_share), proptest::collection::vec(any::<u16>(), 0..4)).prop_map(move |(p, via_sentence, cutsel)| {
        let bytes = realise(&p, &types, mode, focus);
        if via_sentence && !bytes.is_empty() && bytes.len() * 8 / 6 + 1 <= 380 {
            let (chars, fill) = armor::armor_bytes(&bytes);
            let mut cuts: Vec<usize> = cutsel.iter().map(|s| 1 + ((*s as usize * (chars.len().saturating_sub(1))) >> 16)).filter(|c| *c < chars.len()).collect();
            cuts.sort();
            cuts.dedup();
            Input::SentPayload { chars, fill, cuts }
        } else {
            Input::Payload { bytes }
        }
    })
}

// ------------------------------------------------------------------------------------------
// deterministic field sweep (C04 and friends): for every field of every standard shape,
// all-ones / zero / every one-hot bit against both backgrounds.

pub fn field_sweep(t: u8, len: usize, mut visit: impl FnMut(Vec<u8>)) {
    for bg in [0u8, 0xff] {
        let mut base = vec![bg; len];
        set_bits(&mut base, 0, 6, t as u64);
        if t == 24 {
            // both parts against both backgrounds
            for part in 0..=1u64 {
                let mut b2 = base.clone();
                set_bits(&mut b2, 38, 2, part);
                field_sweep_base(&b2, &mut visit);
            }
        } else {
            field_sweep_base(&base, &mut visit);
        }
    }
}

pub fn field_sweep_base(base: &[u8], visit: &mut impl FnMut(Vec<u8>)) {
    let base = base.to_vec();
    {
        let dec = match refdecode(&base) {
            RefMsg::Msg(d) => d,
            _ => return,
        };
        visit(base.clone());
        for f in dec.fields.iter().filter(|f| f.width > 0 && f.path != "message_type") {
            let inv = |b: &mut Vec<u8>, st: usize, w: usize| {
                for i in st..st + w {
                    let cur = get_bits(b, i, 1);
                    set_bits(b, i, 1, 1 - cur);
                }
            };
            // whole field inverted against the background
            let mut m = base.clone();
            inv(&mut m, f.start, f.width);
            visit(m);
            // every single bit of the field inverted
            if f.width <= 64 || matches!(f.hint, Hint::Text(_)) {
                for i in 0..f.width {
                    let mut m = base.clone();
                    inv(&mut m, f.start + i, 1);
                    visit(m);
                }
            } else {
                // long byte spans: first, last and every 37th bit
                for i in (0..f.width).filter(|i| *i == 0 || *i == f.width - 1 || i % 37 == 0) {
                    let mut m = base.clone();
                    inv(&mut m, f.start + i, 1);
                    visit(m);
                }
            }
        }
    }
}

// ------------------------------------------------------------------------------------------
// pairwise special values: every pair of fields of a layout, each set to each of its special values
// (0, 1, max, max-1, sentinels / class values; all values for fields of up to 3 bits), the rest random.
// A decoder that makes one field's value depend on another's ("status 15 of a SART", "data dropped
// when both coordinates are unavailable") shows here without anyone having to guess the pair.

/// The largest value the specification calls *legal* for a field with a calendar, clock or compass range
/// (raw encoding, two's complement for coordinates) - where a decoder that "validates" or special-cases
/// dates, times and positions has its boundaries.
pub fn legal_max(f: &FieldExp) -> Option<u64> {
    let leaf = f.path.rsplit('.').next().unwrap_or(&f.path);
    let v = match (leaf, f.width) {
        ("month", 4) | ("eta_month_utc", 4) => 12,
        ("day", 5) | ("eta_day_utc", 5) => 31,
        ("hour", 5) | ("eta_hour_utc", 5) | ("utc_hour", 5) => 23,
        ("minute", 6) | ("eta_minute_utc", 6) | ("utc_minute", 6) => 59,
        ("second", 6) | ("utc_second", 6) | ("timestamp", 6) => 59,
        ("year", 14) => 9999,
        ("true_heading", 9) => 359,
        ("course_over_ground", 12) => 3599,
        ("course_over_ground", 9) => 359,
        ("speed_over_ground", 10) => 1022,
        ("speed_over_ground", 6) => 62,
        ("longitude", 28) => 108_000_000,
        ("latitude", 27) => 54_000_000,
        ("longitude", 18) => 108_000,
        ("latitude", 17) => 54_000,
        _ => return None,
    };
    Some(v)
}

pub fn specials(f: &FieldExp) -> Vec<u64> {
    let m = mask(f.width);
    let mut v: Vec<u64> = if f.width <= 3 { (0..=m).collect() } else { vec![0, 1, m, m - 1] };
    if let Hint::Sentinels(s) = &f.hint {
        v.extend(s.iter().take(8).map(|x| x & m));
        if f.path.ends_with("longitude") || f.path.ends_with("latitude") {
            // the mirror image of the field's own code (-181 / -91 degrees): out of range, not a code
            v.push((!(s[0] & m)).wrapping_add(1) & m);
        }
    }
    if let Some(l) = legal_max(f) {
        v.push(l & m);
        v.push((l + 1) & m);
        if f.path.ends_with("longitude") || f.path.ends_with("latitude") {
            v.push((!l).wrapping_add(1) & m);
        }
    }
    if let Hint::Text(_) = f.hint {
        v = vec![0, m];
    }
    v.sort();
    v.dedup();
    v
}

/// `base`: 0 = the other bits random, 1 = all zero, 3 = every ranged field at its legal maximum, 2 = "everything unavailable" (every field that has a
/// 'not available' code carries it, the rest zero) - conjunctions of more than two special values are
/// only reachable from a background that already has the others in place
pub fn pairwise_specials(t: u8, len: usize, part: Option<u64>, reps: usize, base: u8, mix: &mut crate::util::Mix, mut visit: impl FnMut(Vec<u8>)) {
    let mk = |mix: &mut crate::util::Mix| {
        let mut b = if base == 0 { mix.bytes(len) } else { vec![0u8; len] };
        set_bits(&mut b, 0, 6, t as u64);
        if let Some(p) = part {
            set_bits(&mut b, 38, 2, p);
        }
        if base == 3 {
            // "the last moment of the year, at the edge of the chart": every field with a calendar, clock or
            // compass range at its largest legal value, the rest zero
            for _ in 0..2 {
                if let RefMsg::Msg(d) = refdecode(&b) {
                    for f in d.fields.iter() {
                        if let Some(l) = legal_max(f) {
                            set_bits(&mut b, f.start, f.width, l & mask(f.width));
                        }
                    }
                }
            }
        }
        if base == 2 {
            if let RefMsg::Msg(d) = refdecode(&b) {
                for f in d.fields.iter() {
                    if let Hint::Sentinels(s) = &f.hint {
                        if f.width > 0 && f.width < 30 && f.checks.iter().any(|(p, _)| *p == Prop::C11 || f.path.ends_with("timestamp") || f.path.ends_with("utc_second")) || f.path.ends_with("timestamp") {
                            set_bits(&mut b, f.start, f.width, s[0] & mask(f.width));
                        }
                    }
                }
            }
        }
        b
    };
    let probe = mk(mix);
    let fields: Vec<FieldExp> = match refdecode(&probe) {
        RefMsg::Msg(d) => d.fields.into_iter().filter(|f| f.width > 0 && f.width <= 64 && f.path != "message_type" && !(part.is_some() && f.path == "message_part")).collect(),
        _ => return,
    };
    for i in 0..fields.len() {
        for j in i + 1..fields.len() {
            let (fi, fj) = (&fields[i], &fields[j]);
            // overlapping spans (model_serial vs unit_model_code/serial_number) are one field twice
            if fi.start < fj.start + fj.width && fj.start < fi.start + fi.width {
                continue;
            }
            for vi in specials(fi) {
                for vj in specials(fj) {
                    for _ in 0..reps {
                        let mut b = mk(mix);
                        set_bits(&mut b, fi.start, fi.width, vi);
                        set_bits(&mut b, fj.start, fj.width, vj);
                        visit(b);
                    }
                }
            }
        }
    }
}

/// the (type, length, part) shapes the pairwise sweep visits
pub fn pairwise_shapes() -> Vec<(u8, usize, Option<u64>)> {
    let mut v = Vec::new();
    for &t in layout::SUPPORTED.iter() {
        let lens = layout::standard_lengths(t);
        // the longest specified shape has all optional parts; for the variable ones also the shortest
        let mut pick: Vec<usize> = vec![*lens.last().unwrap()];
        if matches!(t, 7 | 13 | 15 | 16 | 20) {
            pick.push(lens[0]);
        }
        if matches!(t, 6 | 8 | 12 | 14 | 17) {
            pick = vec![lens[1.min(lens.len() - 1)]];
        }
        for len in pick {
            if t == 24 {
                v.push((t, len.max(21), Some(0)));
                v.push((t, len.max(21), Some(1)));
            } else {
                v.push((t, len, None));
            }
        }
    }
    v
}

/// Payload inputs carried by one sentence on a parser that has first processed a generated history.
pub fn payload_inputs_after(types: Vec<u8>, focus: Prop) -> impl Strategy<Value = Input> {
    (plan(5), crate::gen::sentence::adversarial_events(8), prop::bool::weighted(0.4), any::<u8>()).prop_map(move |(p, evs, odd, idsel)| {
        let bytes = realise(&p, &types, LenMode::Standard, focus);
        let (chars, fill) = if bytes.is_empty() { (b"0".to_vec(), 0) } else { armor::armor_bytes(&bytes) };
        let prefix: Vec<crate::engine::Line> = evs.iter().map(crate::gen::sentence::render_ev).collect();
        // the sequence id the parser is most likely to have kept: that of the last fragment seen
        let last_id = evs.iter().rev().find_map(|e| match e {
            crate::gen::sentence::Ev::Frag { id, .. } => Some(*id),
            _ => None,
        });
        let id = match (last_id, idsel % 4) {
            (Some(i), 0..=2) => i,
            (_, _) => Some(idsel % 3),
        };
        if odd {
            Input::SentAfter { prefix, n: 0, k: 1, id, chars, fill }
        } else {
            Input::SentAfter { prefix, n: 1, k: 1, id: if idsel & 16 == 0 { None } else { id }, chars, fill }
        }
    })
}
