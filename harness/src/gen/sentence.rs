//! Strategies for NMEA sentences and line histories. Every sentence is rendered by the builder
//! R6, so its checksum is correct unless a generator deliberately asks otherwise.

use crate::engine::{Input, Line};
use crate::gen::payload::{plan, realise, LenMode};
use crate::refmodel::armor::{self, ALPHABET};
use crate::refmodel::build::{self, Cks, Num, Spec};
use crate::refmodel::layout::{Prop, SUPPORTED};
use proptest::prelude::*;

pub const TALKERS: [&[u8; 2]; 10] = [b"AB", b"AD", b"AI", b"AN", b"AR", b"AS", b"AT", b"AX", b"BS", b"SA"];

pub fn num(max: u32) -> impl Strategy<Value = Num> {
    (0..=max, prop_oneof![8 => Just(0u8), 2 => 1u8..4, 1 => 4u8..40]).prop_map(|(v, zeros)| Num { v, zeros })
}

pub fn small_num() -> impl Strategy<Value = u32> {
    prop_oneof![
        6 => 0u32..=10,
        2 => Just(255u32),
        1 => Just(254u32),
        2 => 0u32..=255,
    ]
}

/// a byte that may appear inside a field: anything but ',' and '*' (and, for safety of the line
/// structure the CLI sees, '\n')
pub fn field_byte() -> impl Strategy<Value = u8> {
    any::<u8>().prop_map(|b| if b == b',' || b == b'*' || b == b'\n' { b'x' } else { b })
}

pub fn address() -> impl Strategy<Value = [u8; 5]> {
    let talker = prop_oneof![
        6 => (0usize..10).prop_map(|i| *TALKERS[i]),
        2 => prop::sample::select(vec![*b"Ai", *b"AJ", *b"BA", *b"aI", *b"ai", *b"SB", *b"A ", *b"\x00\x00"]),
        2 => (field_byte(), field_byte()).prop_map(|(a, b)| [a, b]),
    ];
    let report = prop_oneof![
        4 => Just(*b"VDM"),
        3 => Just(*b"VDO"),
        1 => prop::sample::select(vec![*b"VDm", *b"vdm", *b"VDN", *b"DMV", *b"XXX"]),
        1 => (field_byte(), field_byte(), field_byte()).prop_map(|(a, b, c)| [a, b, c]),
    ];
    (talker, report).prop_map(|(t, r)| [t[0], t[1], r[0], r[1], r[2]])
}

pub fn channel() -> impl Strategy<Value = Vec<u8>> {
    prop_oneof![
        3 => Just(vec![]),
        3 => Just(b"A".to_vec()),
        3 => Just(b"B".to_vec()),
        1 => Just(b"1".to_vec()),
        1 => Just(b"2".to_vec()),
        2 => proptest::collection::vec(field_byte(), 1..6),
        1 => (128u8..=255).prop_map(|b| vec![b]),
        1 => (128u8..=255, field_byte()).prop_map(|(a, b)| vec![a, b]),
    ]
}

pub fn alphabet_string(max: usize) -> impl Strategy<Value = Vec<u8>> {
    proptest::collection::vec((0usize..64).prop_map(|i| ALPHABET[i]), 1..=max)
}

/// armoured characters (and fill) of a reference-encoded message of any supported type
pub fn message_chars(mode: LenMode) -> impl Strategy<Value = (Vec<u8>, u8)> {
    plan(4).prop_map(move |p| {
        let bytes = realise(&p, &SUPPORTED, mode, Prop::C04);
        if bytes.is_empty() {
            (b"0".to_vec(), 0)
        } else {
            armor::armor_bytes(&bytes)
        }
    })
}

/// payload field contents: decodable messages, alphabet strings, arbitrary bytes
pub fn payload_field(max: usize) -> impl Strategy<Value = (Vec<u8>, u8)> {
    prop_oneof![
        4 => message_chars(LenMode::Standard).prop_map(move |(c, f)| (c[..c.len().min(max)].to_vec(), f)),
        1 => message_chars(LenMode::Any).prop_map(move |(c, f)| (c[..c.len().min(max)].to_vec(), f)),
        3 => (alphabet_string(max.min(90)), 0u8..6),
        1 => (alphabet_string(max), 0u8..6),
        2 => (proptest::collection::vec(field_byte(), 1..=max.min(60)), 0u8..6),
        // a decodable message with one foreign byte at its end or inside (a blank or CR left by a logger, a
        // lower-case slip): the raw payload is reported as it is, decoding it fails
        1 => (message_chars(LenMode::Standard), prop::sample::select(vec![b' ', b'\r', b'\t', b'X', b'x', b'_', 0x80u8, 0u8]), any::<u16>(), prop::bool::weighted(0.7)).prop_map(move |((mut c, f), junk, at, at_end)| {
            c.truncate(max.saturating_sub(1).max(1));
            if at_end {
                c.push(junk);
            } else {
                let i = (at as usize * c.len()) >> 16;
                c[i] = junk;
            }
            (c, f)
        }),
    ]
}

pub fn tag_block() -> impl Strategy<Value = Option<Vec<u8>>> {
    prop_oneof![
        6 => Just(None),
        2 => Just(Some(b"s:2573345,c:1696241893*00".to_vec())),
        // a tag block whose own checksum is wrong, or consistent, or absent: the sentence's checksum is the
        // only one the properties speak about
        1 => Just(Some(b"s:r003669945,c:1241544035*FF".to_vec())),
        1 => Just(Some(b"c:1241544035*53".to_vec())),
        1 => Just(Some(b"g:1-2-73874,n:157036".to_vec())),
        1 => proptest::collection::vec(any::<u8>().prop_map(|b| if b == b'\\' || b == b'\n' { b'y' } else { b }), 1..30).prop_map(Some),
        // a long one: the line as a whole gets longer than any payload capacity (384) although the sentence is ordinary
        1 => (300usize..700, any::<u8>()).prop_map(|(n, x)| Some((0..n).map(|i| b"s:station-17,c:1696241893,t:abcdefgh,"[(i + x as usize) % 37]).collect())),
    ]
}

pub fn tail() -> impl Strategy<Value = Vec<u8>> {
    prop_oneof![
        6 => Just(vec![]),
        // what follows the checksum is ignored, stars and further sentences included
        1 => Just(b" *".to_vec()),
        1 => Just(b"\r*7F".to_vec()),
        1 => Just(b"!AIVDM,1,1,,A,15,0*2A".to_vec()),
        1 => Just(b" x*00*".to_vec()),
        2 => Just(b"\r".to_vec()),
        1 => Just(b"\r\n".to_vec()),
        1 => Just(b" ".to_vec()),
        1 => proptest::collection::vec(any::<u8>().prop_map(|b| if b.is_ascii_hexdigit() || b == b'\n' { b'z' } else { b }), 1..8),
        // "bytes after the checksum are ignored" - however many
        1 => (300usize..700, any::<u8>()).prop_map(|(n, x)| std::iter::once(b' ').chain((0..n).map(|i| b" ;trailing log text 2023-10-02T10:18:13Z rssi=-97"[(i + x as usize) % 49])).collect()),
    ]
}

/// (digits, lower-case) spelling of the checksum
pub fn cks_spelling() -> impl Strategy<Value = (u8, bool)> {
    (prop_oneof![8 => Just(2u8), 1 => Just(1u8), 2 => 3u8..=8], prop::bool::weighted(0.25))
}

/// A well-formed sentence with every field randomised and the numbering given.
pub fn spec_with_numbering(n: Num, k: Num, id: Option<Num>) -> impl Strategy<Value = Spec> {
    // mostly realistic payload sizes; now and then one that makes the body longer than 384 bytes
    let payload = prop_oneof![
        24 => payload_field(120),
        1 => (alphabet_string(700), 0u8..6).prop_map(|(mut p, f)| {
            while p.len() < 372 {
                let n = p.len();
                p.push(ALPHABET[(n * 7) & 63]);
            }
            (p, f)
        }),
    ];
    (tag_block(), prop::bool::weighted(0.2), address(), channel(), payload, tail(), cks_spelling(), any::<bool>()).prop_map(
        move |(tag, dollar, addr, channel, (payload, fill), tail, (cks_digits, cks_lower), zero_fill)| Spec {
            tag,
            delim: if dollar { b'$' } else { b'!' },
            addr,
            n: n.clone(),
            k: k.clone(),
            id: id.clone(),
            channel,
            payload,
            fill: Num { v: fill as u32, zeros: if zero_fill { 2 } else { 0 } },
            cks: Cks::Correct,
            cks_digits,
            cks_lower,
            tail,
        },
    )
}

/// numbering that a fresh parser accepts: (1,1) or first fragment of n >= 2
pub fn accepted_numbering() -> impl Strategy<Value = (Num, Num, Option<Num>)> {
    let id = prop_oneof![3 => Just(None), 4 => num(9).prop_map(Some), 2 => num(255).prop_map(Some)];
    prop_oneof![
        3 => (Just(Num::plain(1)), Just(Num::plain(1)), id.clone()),
        1 => (num(1).prop_map(|mut n| { n.v = 1; n }), num(1).prop_map(|mut n| { n.v = 1; n }), id.clone()),
        3 => (2u32..=255, prop_oneof![6 => Just(0u8), 1 => 1u8..3], id).prop_map(|(n, z, id)| (Num { v: n, zeros: z }, Num { v: 1, zeros: z }, id)),
    ]
}

pub fn wellformed_spec() -> impl Strategy<Value = Spec> {
    accepted_numbering().prop_flat_map(|(n, k, id)| spec_with_numbering(n, k, id))
}

// ------------------------------------------------------------------------------------------
// histories

/// one event of a generated history, before rendering
#[derive(Clone, Debug)]
pub enum Ev {
    /// unfragmented sentence
    Single { payload: Vec<u8>, fill: u8, decode: bool },
    /// fragment k of n with sequence id
    Frag { n: u8, k: u8, id: Option<u8>, payload: Vec<u8>, fill: u8, decode: bool },
    /// a well-formed sentence with a wrong checksum
    BadChecksum { n: u8, k: u8, id: Option<u8>, payload: Vec<u8> },
    /// arbitrary bytes
    Raw(Vec<u8>),
}

pub fn render_ev(e: &Ev) -> Line {
    match e {
        Ev::Single { payload, fill, decode } => Line::new(build::line(1, 1, None, b"A", payload, *fill as u32), *decode),
        Ev::Frag { n, k, id, payload, fill, decode } => Line::new(build::line(*n as u32, *k as u32, id.map(|i| i as u32), b"B", payload, *fill as u32), *decode),
        Ev::BadChecksum { n, k, id, payload } => {
            let mut s = Spec::simple(*n as u32, *k as u32, id.map(|i| i as u32), b"A", payload, 0);
            s.cks = Cks::Delta(0x11);
            Line::new(s.render(), false)
        }
        Ev::Raw(b) => Line::new(b.clone(), false),
    }
}

pub fn seq_id() -> impl Strategy<Value = Option<u8>> {
    // absent, the small ids real traffic uses, and the extremes of the field (0 and 255 are where an
    // implementation that stores "no id" in-band would collide)
    prop_oneof![3 => Just(None), 6 => (0u8..4).prop_map(Some), 2 => (0u8..=9).prop_map(Some), 2 => Just(Some(0)), 2 => Just(Some(255)), 1 => any::<u8>().prop_map(Some)]
}

/// short payload whose content identifies it (so that a delivered concatenation shows which
/// fragments were used, and in what order)
pub fn token_payload() -> impl Strategy<Value = Vec<u8>> {
    // one token in eight carries a byte outside the armouring alphabet: the sentence is still well-formed
    // (C07: "arbitrary non-comma payload bytes"), only decoding the payload it ends up in fails
    prop_oneof![
        7 => alphabet_string(6),
        1 => (alphabet_string(5), prop::sample::select(vec![b'X', b'x', b'_', b'~', b' ', b'/', 0x80u8, 0xffu8]), any::<u8>()).prop_map(|(mut t, junk, at)| {
            let i = (at as usize * (t.len() + 1)) >> 8;
            t.insert(i, junk);
            t
        }),
    ]
}

pub fn malformed_line() -> impl Strategy<Value = Vec<u8>> {
    prop_oneof![
        2 => Just(b"".to_vec()),
        2 => Just(b"!AIVDM,1,1,,A,15,0".to_vec()),
        2 => Just(b"!AIVDM,2,1,,A,,0*00".to_vec()),
        2 => Just(b"$GPGGA,123519,4807.038,N,01131.000,E,1,08,0.9,545.4,M,46.9,M,,*47".to_vec()),
        2 => Just(b"!AIVDM,1,1,,A,15,6*2F".to_vec()),
        3 => proptest::collection::vec(any::<u8>().prop_map(|b| if b == b'\n' { b' ' } else { b }), 0..40),
    ]
}

/// a fragment line of the current traffic with ONE field spelled wrongly (sequence id 300 / 7x / x,
/// count 256, fragment number "+2", fill 6 ...) and a correct checksum: rejected for its form, but
/// only if every field is really validated - and it must leave no trace
pub fn junk_field_fragment() -> impl Strategy<Value = Ev> {
    (2u32..=5, any::<u16>(), seq_id(), token_payload(), 0usize..4, prop::sample::select(vec!["300", "256", "777", "x", "7x", "1 ", " 1", "+1", "-1", "1.0", "0x1", "1e0", "\u{0661}"])).prop_map(
        |(n, ksel, id, payload, which, junk)| {
            let k = 1 + ((ksel as u32 * n) >> 16);
            let f = |v: u32| v.to_string();
            let (ns, ks, ids, fills) = match which {
                0 => (junk.to_string(), f(k), id.map(|i| i.to_string()).unwrap_or_default(), "0".to_string()),
                1 => (f(n), junk.to_string(), id.map(|i| i.to_string()).unwrap_or_default(), "0".to_string()),
                2 => (f(n), f(k), junk.to_string(), "0".to_string()),
                _ => (f(n), f(k), id.map(|i| i.to_string()).unwrap_or_default(), if junk == "1 " || junk == " 1" { junk.to_string() } else { "6".to_string() }),
            };
            let mut body = Vec::new();
            body.extend_from_slice(format!("AIVDM,{},{},{},A,", ns, ks, ids).as_bytes());
            body.extend_from_slice(&payload);
            body.extend_from_slice(format!(",{}", fills).as_bytes());
            let mut line = vec![b'!'];
            line.extend_from_slice(&body);
            line.extend_from_slice(format!("*{:02X}", crate::util::xor(&body)).as_bytes());
            Ev::Raw(line)
        },
    )
}

/// noise that must leave no trace: unfragmented sentences, bad checksums, malformed lines
pub fn noise_ev() -> impl Strategy<Value = Ev> {
    prop_oneof![
        2 => junk_field_fragment(),
        4 => (payload_field(60), any::<bool>()).prop_map(|((payload, fill), decode)| Ev::Single { payload, fill, decode }),
        2 => (2u8..6, 1u8..6, seq_id(), token_payload()).prop_map(|(n, k, id, payload)| Ev::BadChecksum { n, k: k.min(n), id, payload }),
        1 => token_payload().prop_map(|payload| Ev::BadChecksum { n: 1, k: 1, id: None, payload }),
        3 => malformed_line().prop_map(Ev::Raw),
    ]
}

/// any validly numbered fragment (1 <= k <= n, n >= 2), ids from a small pool
pub fn any_fragment() -> impl Strategy<Value = Ev> {
    (2u8..=9, any::<u16>(), seq_id(), token_payload(), any::<bool>()).prop_map(|(n, ksel, id, payload, decode)| {
        let k = 1 + ((ksel as u32 * n as u32) >> 16) as u8;
        Ev::Frag { n, k, id, payload, fill: 0, decode }
    })
}

/// A long group (10..=40 fragments, two-digit fragment numbers) played in order up to some point, then one to
/// three probe lines whose number and id are *related* to the position reached (the next number shifted by
/// +-1, +-9, +-10, +-11, +-16, +-17; the id shifted by 0, +-1 or dropped) - where a reassembly state packed
/// into one integer, a bitmap, or a decimal cursor aliases - and then, possibly, the rest of the group.
pub fn long_group_events() -> impl Strategy<Value = Vec<Ev>> {
    (
        10u8..=40,
        seq_id(),
        any::<u16>(),
        proptest::collection::vec(
            (
                prop::sample::select(vec![-17i32, -16, -11, -10, -9, -2, -1, 0, 1, 2, 9, 10, 11, 16, 17]),
                prop::sample::select(vec![-1i32, 0, 0, 0, 1, 99]),
                any::<bool>(),
            ),
            1..4,
        ),
        any::<bool>(),
        any::<u8>(),
    )
        .prop_map(|(n, id, jsel, probes, go_on, salt)| {
            let tok = |k: u32| {
                let a = ALPHABET[((k as usize) * 7 + salt as usize) & 63];
                let b = ALPHABET[((k as usize) * 13 + 5 + (salt as usize >> 2)) & 63];
                vec![a, b]
            };
            let j = 1 + ((jsel as u32 * n as u32) >> 16) as u8; // fragments 1..=j are played
            let mut evs: Vec<Ev> = (1..=j).map(|k| Ev::Frag { n, k, id, payload: tok(k as u32), fill: 0, decode: false }).collect();
            let mut delivered = j == n;
            for (dk, did, closing) in probes {
                let k2 = (j as i32 + 1 + dk).clamp(1, 255) as u8;
                let id2 = match (id, did) {
                    (_, 99) => None,
                    (Some(i), d) => Some((i as i32 + d).clamp(0, 255) as u8),
                    (None, 0) => None,
                    (None, d) => Some(d.unsigned_abs() as u8),
                };
                // validly numbered: the probe either claims the group's own count or closes a group of its own size
                let n2 = if closing || k2 > n { k2.max(2) } else { n };
                if k2 == j + 1 && id2 == id && n2 == n {
                    delivered = delivered || k2 == n;
                }
                evs.push(Ev::Frag { n: n2, k: k2, id: id2, payload: tok(100 + k2 as u32), fill: 0, decode: false });
            }
            if go_on && !delivered {
                for k in (j + 1)..=n {
                    evs.push(Ev::Frag { n, k, id, payload: tok(k as u32), fill: 0, decode: false });
                }
            }
            evs
        })
}

/// Adversarial histories for C06 / C17 / C01: groups with loss, duplication, reordering,
/// interleaving, id reuse, mixed with noise.
pub fn adversarial_events(max_len: usize) -> impl Strategy<Value = Vec<Ev>> {
    // a "script" element is either one loose event or a whole group played with defects
    let group = (2u8..=6, seq_id(), proptest::collection::vec(token_payload(), 6), proptest::collection::vec(0u8..10, 6), any::<bool>(), any::<u8>()).prop_map(
        |(n, id, toks, defects, decode_last, decode_mid)| {
            let mut evs = Vec::new();
            for k in 1..=n {
                let payload = toks[(k - 1) as usize % toks.len()].clone();
                // callers that want messages pass decode = true for every line, not only for the last of a group
                let decode = if k == n { decode_last } else { (decode_mid >> (k % 8)) & 1 == 1 };
                let ev = Ev::Frag { n, k, id, payload, fill: 0, decode };
                match defects[(k - 1) as usize % defects.len()] {
                    0 => {} // lost
                    3 => {
                        // retransmitted with two payload characters transposed: same XOR checksum, same
                        // numbering, different data - a receiver that recognises repeats by checksum is fooled
                        if let Ev::Frag { payload, .. } = &ev {
                            if payload.len() >= 2 && payload[0] != payload[1] {
                                evs.push(ev.clone());
                                let mut p2 = payload.clone();
                                p2.swap(0, 1);
                                evs.push(Ev::Frag { n, k, id, payload: p2, fill: 0, decode: false });
                                continue;
                            }
                        }
                        evs.push(ev);
                    }
                    1 => {
                        evs.push(ev.clone());
                        evs.push(ev); // duplicated
                    }
                    2 => {
                        // swapped with the previous one
                        let l = evs.len();
                        if l > 0 {
                            evs.insert(l - 1, ev);
                        } else {
                            evs.push(ev);
                        }
                    }
                    _ => evs.push(ev),
                }
            }
            evs
        },
    );
    let elem = prop_oneof![
        5 => group,
        3 => any_fragment().prop_map(|e| vec![e]),
        2 => noise_ev().prop_map(|e| vec![e]),
    ];
    proptest::collection::vec(elem, 1..8).prop_map(move |v| {
        let mut out: Vec<Ev> = v.into_iter().flatten().collect();
        out.truncate(max_len);
        out
    })
}

pub fn events_to_input(evs: &[Ev]) -> Input {
    Input::History { lines: evs.iter().map(render_ev).collect() }
}

/// In-order groups for C05: payload split at arbitrary character boundaries into 2..=9
/// fragments, any prior history, noise between the fragments.
pub fn inorder_group_history() -> impl Strategy<Value = Input> {
    let payload = prop_oneof![
        10 => message_chars(LenMode::Standard),
        2 => message_chars(LenMode::Any),
        4 => (alphabet_string(120), 0u8..6),
        2 => (alphabet_string(380), 0u8..6),
        // one byte outside the armouring alphabet somewhere: every fragment is still a well-formed sentence and
        // reassembly is unaffected; only decoding the completed payload fails
        1 => (alphabet_string(60), 0u8..6, any::<u16>(), prop::sample::select(vec![b'X', b'x', b'_', b'~', b' ', 0x80u8])).prop_map(|(mut p, f, at, junk)| {
            let i = (at as usize * p.len()) >> 16;
            p[i] = junk;
            (p, f)
        }),
        // longer than the no-allocator build can hold (it must reject; std and alloc must not care)
        1 => (alphabet_string(1200), 0u8..6).prop_map(|(mut p, f)| {
            while p.len() < 390 {
                let n = p.len();
                p.push(ALPHABET[(n * 11) & 63]);
            }
            (p, f)
        }),
    ];
    let prior = prop_oneof![
        3 => Just(Vec::<Ev>::new()),
        5 => adversarial_events(10),
    ];
    (
        payload,
        2usize..=9,
        proptest::collection::vec(any::<u16>(), 8),
        prop_oneof![2 => Just(None), 4 => (0u8..=9).prop_map(Some), 2 => any::<u8>().prop_map(Some)],
        prior,
        proptest::collection::vec(proptest::collection::vec(noise_or_stray(), 0..3), 9),
        proptest::collection::vec(any::<bool>(), 9),
        proptest::collection::vec(0u8..6, 9),
        any::<u8>(),
    )
        .prop_map(|((chars, fill), nfrag, cutsel, id, prior, between, decodes, fills, zeros)| {
            let chars = if chars.len() < 2 { b"15".to_vec() } else { chars };
            let n = nfrag.min(chars.len());
            // n-1 distinct cut points in 1..len
            let mut cuts: Vec<usize> = Vec::new();
            for s in cutsel.iter() {
                if cuts.len() + 1 >= n {
                    break;
                }
                let c = 1 + ((*s as usize * (chars.len() - 1)) >> 16);
                if !cuts.contains(&c) {
                    cuts.push(c);
                }
            }
            let mut c = 1;
            while cuts.len() + 1 < n {
                if !cuts.contains(&c) {
                    cuts.push(c);
                }
                c += 1;
            }
            cuts.sort();
            let pieces = build::split_at(&chars, &cuts);
            let n = pieces.len() as u32;
            let mut lines: Vec<Line> = prior.iter().map(render_ev).collect();
            for (i, piece) in pieces.iter().enumerate() {
                let k = i as u32 + 1;
                let last = k == n;
                let mut s = Spec::simple(n, k, id.map(|x| x as u32), b"A", piece, if last { fill as u32 } else { fills[i % fills.len()] as u32 });
                // header fields vary from fragment to fragment: the completed sentence must carry
                // the last fragment's own
                let v = cutsel[i % cutsel.len()] as usize ^ (zeros as usize) << 3;
                s.channel = [&b"A"[..], b"B", b"", b"1", b"AB"][(v >> 2) % 5].to_vec();
                s.addr = [*b"AIVDM", *b"AIVDO", *b"BSVDM", *b"ABVDO", *b"SAVDM", *b"XXVDM"][(v >> 5) % 6];
                if v & 3 == 3 {
                    s.delim = b'$';
                }
                if zeros & 3 == 3 {
                    // numbers written with leading zeros
                    s.n.zeros = 1;
                    s.k.zeros = 2;
                    if let Some(idn) = &mut s.id {
                        idn.zeros = 1;
                    }
                }
                lines.push(Line::new(s.render(), decodes[i % decodes.len()]));
                if !last {
                    for e in &between[i % between.len()] {
                        lines.push(render_ev(&resolve_stray(e, n as u8, k as u8, id)));
                    }
                }
            }
            Input::History { lines }
        })
}

/// noise between fragments: the kinds of lines C05 names — unfragmented sentences and rejected
/// lines, the latter including out-of-sequence fragments relative to the group being played.
#[derive(Clone, Debug)]
pub enum Stray {
    Noise(Ev),
    /// duplicate of the fragment just sent
    Duplicate(Vec<u8>),
    /// a fragment two ahead
    Gap(Vec<u8>),
    /// the right number with another id
    OtherId(Vec<u8>),
    /// an earlier number (>= 2)
    Earlier(Vec<u8>),
}

pub fn noise_or_stray() -> impl Strategy<Value = Stray> {
    prop_oneof![
        5 => noise_ev().prop_map(Stray::Noise),
        1 => token_payload().prop_map(Stray::Duplicate),
        1 => token_payload().prop_map(Stray::Gap),
        1 => token_payload().prop_map(Stray::OtherId),
        1 => token_payload().prop_map(Stray::Earlier),
    ]
}

fn resolve_stray(s: &Stray, n: u8, k: u8, id: Option<u8>) -> Ev {
    let other_id = match id {
        None => Some(7),
        Some(i) => Some(i.wrapping_add(1)),
    };
    match s {
        Stray::Noise(e) => e.clone(),
        // all of these are rejected by the sequencing rule while fragment k was the last accepted
        Stray::Duplicate(p) if k >= 2 => Ev::Frag { n, k, id, payload: p.clone(), fill: 0, decode: false },
        Stray::Gap(p) if k + 2 <= n => Ev::Frag { n, k: k + 2, id, payload: p.clone(), fill: 0, decode: false },
        Stray::OtherId(p) => Ev::Frag { n, k: k + 1, id: other_id, payload: p.clone(), fill: 0, decode: false },
        Stray::Earlier(p) if k >= 3 => Ev::Frag { n, k: k - 1, id, payload: p.clone(), fill: 0, decode: false },
        Stray::Duplicate(p) | Stray::Gap(p) | Stray::Earlier(p) => Ev::BadChecksum { n, k, id, payload: p.clone() },
    }
}
