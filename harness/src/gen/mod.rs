//! Generators: proptest strategies and deterministic sweeps.
pub mod payload;
pub mod sentence;
