// Included once per build configuration (see adapter.rs); `ais` is an alias for the
// wrapper crate of that configuration. Nothing here is cfg-dependent: it only uses
// the public API that all three configurations share.

use crate::adapter::{Config, ParserObj};
use crate::outcome::*;
use crate::adapter::guarded;

fn conv_err(e: ais::errors::Error) -> ErrCat {
    match e {
        ais::errors::Error::Nmea { msg } => ErrCat::Nmea(msg.to_string()),
        ais::errors::Error::Checksum { expected, found } => ErrCat::Checksum { expected, found },
    }
}

fn conv_sentence(s: &ais::sentence::AisSentence) -> Sent {
    Sent {
        talker: format!("{:?}", s.talker_id),
        report: format!("{:?}", s.report_type),
        num_fragments: s.num_fragments,
        fragment_number: s.fragment_number,
        message_id: s.message_id,
        channel: s.channel,
        data: s.data[..].to_vec(),
        fill: s.fill_bit_count,
        message_type: s.message_type,
        message: s.message.as_ref().map(|m| format!("{:?}", m)),
    }
}

fn conv_frag(r: &ais::errors::Result<ais::AisFragments>) -> Outcome {
    match r {
        Ok(ais::AisFragments::Complete(s)) => Outcome::Complete(conv_sentence(s)),
        Ok(ais::AisFragments::Incomplete(s)) => Outcome::Incomplete(conv_sentence(s)),
        Err(e) => Outcome::Err(conv_err(e.clone())),
    }
}

pub struct P(ais::AisParser);

impl ParserObj for P {
    fn parse(&mut self, line: &[u8], decode: bool) -> Outcome {
        crate::adapter::beat();
        let p = &mut self.0;
        match guarded(|| {
            let r = p.parse(line, decode);
            conv_frag(&r)
        }) {
            Ok(o) => o,
            Err(m) => Outcome::Panic(m),
        }
    }

    /// Parse, then apply `Option::<AisSentence>::from(result)` to the returned value.
    /// (The conversions consume the value; C05 drives two lock-step parsers, one per conversion.)
    fn parse_conv_opt(&mut self, line: &[u8], decode: bool) -> (Outcome, Option<Option<Sent>>) {
        crate::adapter::beat();
        let p = &mut self.0;
        match guarded(|| {
            let r = p.parse(line, decode);
            let o = conv_frag(&r);
            match r {
                Ok(frag) => {
                    let opt: Option<ais::sentence::AisSentence> = frag.into();
                    (o, Some(opt.as_ref().map(conv_sentence)))
                }
                Err(_) => (o, None),
            }
        }) {
            Ok(t) => t,
            Err(m) => (Outcome::Panic(m), None),
        }
    }

    fn parse_conv_res(&mut self, line: &[u8], decode: bool) -> (Outcome, Option<Result<Sent, ErrCat>>) {
        crate::adapter::beat();
        let p = &mut self.0;
        match guarded(|| {
            let r = p.parse(line, decode);
            let o = conv_frag(&r);
            match r {
                Ok(frag) => {
                    let res: ais::errors::Result<ais::sentence::AisSentence> = frag.into();
                    (o, Some(res.as_ref().map(conv_sentence).map_err(|e| conv_err(e.clone()))))
                }
                Err(_) => (o, None),
            }
        }) {
            Ok(t) => t,
            Err(m) => (Outcome::Panic(m), None),
        }
    }

    fn debug(&self) -> String {
        format!("{:?}", self.0)
    }
}

mod canon {
    use super::ais;
    include!("canon_body.rs");
}

pub struct C;

impl Config for C {
    fn name(&self) -> &'static str {
        NAME
    }

    fn new_parser(&self) -> Box<dyn ParserObj> {
        Box::new(P(ais::AisParser::new()))
    }

    fn unarmor(&self, data: &[u8], fill: usize) -> PRes<Vec<u8>> {
        crate::adapter::beat();
        match guarded(|| ais::messages::unarmor(data, fill).map(|v| v[..].to_vec()).map_err(conv_err)) {
            Ok(Ok(v)) => PRes::Ok(v),
            Ok(Err(e)) => PRes::Err(e),
            Err(m) => PRes::Panic(m),
        }
    }

    fn parse_msg(&self, bytes: &[u8]) -> PRes<String> {
        crate::adapter::beat();
        match guarded(|| {
            ais::messages::parse(bytes)
                .map(|m| format!("{:?}", m))
                .map_err(conv_err)
        }) {
            Ok(Ok(v)) => PRes::Ok(v),
            Ok(Err(e)) => PRes::Err(e),
            Err(m) => PRes::Panic(m),
        }
    }

    fn parse_msg_ok(&self, bytes: &[u8]) -> PRes<()> {
        crate::adapter::beat();
        match guarded(|| ais::messages::parse(bytes).map(|_| ()).map_err(conv_err)) {
            Ok(Ok(v)) => PRes::Ok(v),
            Ok(Err(e)) => PRes::Err(e),
            Err(m) => PRes::Panic(m),
        }
    }

    fn rot_probe(&self, bytes: &[u8]) -> Option<Option<(Option<f32>, String)>> {
        guarded(|| match ais::messages::parse(bytes) {
            Ok(ais::messages::AisMessage::PositionReport(p)) => Some(p.rate_of_turn.map(|r| (r.rate(), format!("{:?}", r.direction())))),
            _ => None,
        })
        // a panic inside the accessors is an observation too (reported as the direction text), not "no value"
        .unwrap_or_else(|m| Some(Some((None, format!("PANIC in RateOfTurn::rate()/direction(): {}", m)))))
    }

    fn canon_history(&self, lines: &[(Vec<u8>, bool)]) -> Vec<String> {
        let mut p = ais::AisParser::new();
        lines.iter().map(|(l, d)| guarded(|| canon::canon_line(&mut p, l, *d)).unwrap_or_else(|_| "PANIC".into())).collect()
    }

    fn canon_parse(&self, bytes: &[u8]) -> String {
        guarded(|| canon::canon_parse(bytes)).unwrap_or_else(|_| "PANIC".into())
    }

    fn canon_unarmor(&self, data: &[u8], fill: usize) -> String {
        guarded(|| canon::canon_unarmor(data, fill)).unwrap_or_else(|_| "PANIC".into())
    }

    fn shiptype_parse(&self, code: u8) -> PRes<(String, Option<u8>)> {
        match guarded(|| {
            let st = ais::messages::types::ShipType::parse(code);
            (format!("{:?}", st), st.map(u8::from))
        }) {
            Ok(v) => PRes::Ok(v),
            Err(m) => PRes::Panic(m),
        }
    }
}
