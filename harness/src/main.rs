fn main() {
    let mut p = ais_std::AisParser::new();
    println!("{:?}", p.parse(b"!AIVDM,1,1,,B,E>kb9O9aS@7PUh10dh19@;0Tah2cWrfP:l?M`00003vP100,0*01", true));
    let mut p = ais_alloc::AisParser::new();
    println!("{:?}", p.parse(b"!AIVDM,1,1,,B,E>kb9O9aS@7PUh10dh19@;0Tah2cWrfP:l?M`00003vP100,0*01", true));
    let mut p = ais_none::AisParser::new();
    println!("{:?}", p.parse(b"!AIVDM,1,1,,B,E>kb9O9aS@7PUh10dh19@;0Tah2cWrfP:l?M`00003vP100,0*01", true));
}
