//! aisverif — property-based checks for squidpickles/ais (see /verif/DESIGN.md).
//!
//!   aisverif <ID> <quick|thorough>      run the check of one property
//!   aisverif <ID> --replay <file>       re-execute one saved input, no generation
//!   aisverif selftest                   self-tests of the reference models

use aisverif::engine::{self, infra_error, Ctx, Input, Rec, Tier, Verdict};
use aisverif::{adapter, fuzzglue, props, refmodel, util};

fn main() {
    let args: Vec<String> = std::env::args().collect();
    adapter::install_panic_hook();
    if args.len() >= 2 && args[1] == "selftest" {
        match refmodel::selftest() {
            Ok(()) => {
                println!("reference models: self-tests passed");
                return;
            }
            Err(e) => infra_error(&format!("reference model self-test failed: {}", e)),
        }
    }
    if args.len() >= 3 && args[1] == "fuzz-seeds" {
        fuzzglue::write_seeds(&args[2]).unwrap_or_else(|e| infra_error(&format!("cannot write seeds: {}", e)));
        return;
    }
    if args.len() >= 5 && args[1] == "fuzz-convert" {
        // aisverif fuzz-convert <fz_lines|fz_payload> <ID> <artifact>  -> prints the Input as JSON
        let data = std::fs::read(&args[4]).unwrap_or_else(|e| infra_error(&format!("cannot read {}: {}", args[4], e)));
        let input = match args[2].as_str() {
            "fz_lines" => fuzzglue::decode_lines(&data, &args[3]),
            "fz_payload" => fuzzglue::decode_payload(&data, &args[3]),
            other => infra_error(&format!("unknown fuzz target {}", other)),
        };
        match input {
            Some(i) => println!("{}", i.to_json()),
            None => infra_error("the artifact does not decode into an input for that property"),
        }
        return;
    }
    if args.len() < 3 {
        eprintln!("usage: aisverif <ID> <quick|thorough> | aisverif <ID> --replay <file> | aisverif selftest");
        std::process::exit(2);
    }
    let prop: &'static str = match props::ALL.iter().find(|p| **p == args[1]) {
        Some(p) => p,
        None => infra_error(&format!("unknown property id {}", args[1])),
    };
    if let Err(e) = refmodel::selftest() {
        infra_error(&format!("reference model self-test failed: {}", e));
    }
    if args[2] == "--replay" {
        let file = args.get(3).unwrap_or_else(|| infra_error("--replay needs a file"));
        std::process::exit(replay(prop, file));
    }
    let tier = match std::env::var("VERIF_TIER").ok().as_deref().unwrap_or(args[2].as_str()) {
        "quick" => Tier::Quick,
        "thorough" => Tier::Thorough,
        other => infra_error(&format!("unknown tier {}", other)),
    };
    let seed = match std::env::var("VERIF_SEED") {
        Ok(s) => match s.trim().parse::<u64>() {
            Ok(0) => 0x5eed_0000_0000_0001,
            Ok(v) => v,
            Err(_) => infra_error(&format!("VERIF_SEED is not an unsigned integer: {:?}", s)),
        },
        Err(_) => 1,
    };
    engine::start_watchdog(prop, tier, seed);
    let mut ctx = Ctx::new(prop, tier, seed);
    props::run(prop, &mut ctx);
    let code = ctx.finish();
    std::process::exit(code);
}

fn replay(prop: &'static str, file: &str) -> i32 {
    let s = std::fs::read_to_string(file).unwrap_or_else(|e| infra_error(&format!("cannot read {}: {}", file, e)));
    let v: serde_json::Value = serde_json::from_str(&s).unwrap_or_else(|e| infra_error(&format!("bad JSON in {}: {}", file, e)));
    let input = v.get("input").and_then(Input::from_json).unwrap_or_else(|| infra_error("replay file has no usable input"));
    let sub = v.get("sub").and_then(|s| s.as_str()).unwrap_or("replay").to_string();
    let cfgs: Vec<&'static dyn adapter::Config> = match v.get("config").and_then(|c| c.as_str()) {
        Some("all") | None => adapter::configs().to_vec(),
        Some(name) => vec![adapter::config_by_name(name).unwrap_or_else(|| infra_error("unknown config in replay file"))],
    };
    // C01: the input may kill the process (stack overflow, abort). Try it in a child first.
    if prop == "C01" && std::env::var("AISVERIF_CHILD").is_err() {
        if let Ok(exe) = std::env::current_exe() {
            if let Ok(o) = std::process::Command::new(exe).arg("C01").arg("--replay").arg(file).env("AISVERIF_CHILD", "1").output() {
                if !matches!(o.status.code(), Some(0) | Some(1) | Some(2)) {
                    println!("replay C01: the process running this input died ({:?}): stack overflow or abort", o.status.code());
                    println!("  verdict: FAILS");
                    println!("VIOLATION property=C01 replay={}", file);
                    return 1;
                }
            }
        }
    }
    let check = props::check_fn(prop);
    let findings = engine::load_findings();
    // histories are first reduced by greedy line removal (keeps the failure, drops what is not needed)
    let input = if std::env::var("AISVERIF_SHRINK").is_ok() {
        let mut cur = input;
        let cfg0 = cfgs[0];
        let fails = |i: &Input| {
            let mut r = Rec::default();
            matches!(check(&sub, cfg0, i, &mut r), Verdict::Fail { .. })
        };
        if let Input::History { lines } = &cur {
            let mut lines = lines.clone();
            if fails(&cur) {
                let mut i = 0;
                while i < lines.len() && lines.len() > 1 {
                    let mut cand = lines.clone();
                    cand.remove(i);
                    if fails(&Input::History { lines: cand.clone() }) {
                        lines = cand;
                    } else {
                        i += 1;
                    }
                }
                cur = Input::History { lines };
                println!("shrunk input: {}", cur.to_json());
            }
        }
        cur
    } else {
        input
    };
    let mut failed = false;
    for cfg in cfgs {
        let mut rec = Rec::default();
        rec.want_note = true;
        let verdict = check(&sub, cfg, &input, &mut rec);
        println!("replay {} sub-check {} [{}]", prop, sub, cfg.name());
        println!("  input: {}", util::clip(&input.to_json().to_string(), 3000));
        if let Some(n) = &rec.note {
            println!("  outcome: {}", n);
        }
        match verdict {
            Verdict::Pass => println!("  verdict: holds"),
            Verdict::Excluded(why) => println!("  verdict: outside the property's domain ({})", why),
            Verdict::Known { sig, expected, observed } => {
                let listed = findings.iter().any(|f| f.property == prop && f.sig == sig);
                println!("  expected: {}\n  observed: {}", expected, observed);
                if listed {
                    println!("  verdict: fails — known finding {}", sig);
                } else {
                    println!("  verdict: FAILS (signature {} is not listed as a finding)", sig);
                    failed = true;
                }
            }
            Verdict::Fail { expected, observed } => {
                println!("  expected: {}\n  observed: {}", expected, observed);
                println!("  verdict: FAILS");
                failed = true;
            }
        }
    }
    if failed {
        println!("VIOLATION property={} replay={}", prop, file);
        1
    } else {
        0
    }
}
