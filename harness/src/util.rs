//! Small helpers: escaping, hex, hashing, a counter-based mixer for reproducible sweeps.

use std::hash::{Hash, Hasher};

/// Printable rendering of a byte string (ASCII kept, the rest as \xNN).
pub fn esc(b: &[u8]) -> String {
    let mut s = String::with_capacity(b.len() + 8);
    for &c in b {
        match c {
            b'\\' => s.push_str("\\\\"),
            0x20..=0x7e => s.push(c as char),
            b'\n' => s.push_str("\\n"),
            b'\r' => s.push_str("\\r"),
            _ => s.push_str(&format!("\\x{:02x}", c)),
        }
    }
    s
}

pub fn clip(s: &str, n: usize) -> String {
    if s.len() <= n {
        s.to_string()
    } else {
        let mut end = n;
        while !s.is_char_boundary(end) {
            end -= 1;
        }
        format!("{}…(+{} bytes)", &s[..end], s.len() - end)
    }
}

pub fn hex(b: &[u8]) -> String {
    let mut s = String::with_capacity(b.len() * 2);
    for c in b {
        s.push_str(&format!("{:02x}", c));
    }
    s
}

pub fn unhex(s: &str) -> Option<Vec<u8>> {
    let s = s.as_bytes();
    if s.len() % 2 != 0 {
        return None;
    }
    let mut out = Vec::with_capacity(s.len() / 2);
    for p in s.chunks(2) {
        let h = (p[0] as char).to_digit(16)?;
        let l = (p[1] as char).to_digit(16)?;
        out.push((h * 16 + l) as u8);
    }
    Some(out)
}

/// FNV-1a 64 — stable across runs and platforms (std's DefaultHasher is not promised to be).
#[derive(Clone, Copy)]
pub struct Fnv(pub u64);
impl Default for Fnv {
    fn default() -> Self {
        Fnv(0xcbf29ce484222325)
    }
}
impl Hasher for Fnv {
    fn finish(&self) -> u64 {
        self.0
    }
    fn write(&mut self, bytes: &[u8]) {
        for b in bytes {
            self.0 ^= *b as u64;
            self.0 = self.0.wrapping_mul(0x100000001b3);
        }
    }
}

pub fn hash_of<T: Hash + ?Sized>(t: &T) -> u64 {
    let mut h = Fnv::default();
    t.hash(&mut h);
    // final avalanche so that low bits are usable
    mix64(h.finish())
}

/// splitmix64 finaliser: a counter-based generator for "the other bits random" in
/// deterministic sweeps. Reproducible from (seed, index); never used inside proptest-driven
/// checks, where every random choice belongs to the strategy.
pub fn mix64(mut z: u64) -> u64 {
    z = z.wrapping_add(0x9e3779b97f4a7c15);
    z = (z ^ (z >> 30)).wrapping_mul(0xbf58476d1ce4e5b9);
    z = (z ^ (z >> 27)).wrapping_mul(0x94d049bb133111eb);
    z ^ (z >> 31)
}

/// Deterministic pseudo-random byte stream from (seed, stream index).
pub struct Mix {
    s: u64,
    i: u64,
}
impl Mix {
    pub fn new(seed: u64, stream: u64) -> Self {
        Mix { s: mix64(seed ^ mix64(stream)), i: 0 }
    }
    pub fn next(&mut self) -> u64 {
        self.i += 1;
        mix64(self.s.wrapping_add(self.i.wrapping_mul(0x9e3779b97f4a7c15)))
    }
    pub fn below(&mut self, n: u64) -> u64 {
        // n is small; modulo bias irrelevant for test input selection
        self.next() % n.max(1)
    }
    pub fn fill(&mut self, buf: &mut [u8]) {
        for ch in buf.chunks_mut(8) {
            let v = self.next().to_le_bytes();
            ch.copy_from_slice(&v[..ch.len()]);
        }
    }
    pub fn bytes(&mut self, n: usize) -> Vec<u8> {
        let mut v = vec![0u8; n];
        self.fill(&mut v);
        v
    }
}

/// NMEA XOR checksum of a body.
pub fn xor(b: &[u8]) -> u8 {
    b.iter().fold(0u8, |a, c| a ^ c)
}

/// Run `f` over `jobs` on all cores, results in job order.
pub fn par_map<J: Send, R: Send, F: Fn(J) -> R + Sync>(jobs: Vec<J>, f: F) -> Vec<R> {
    let n = jobs.len();
    let threads = std::thread::available_parallelism().map(|n| n.get()).unwrap_or(4).min(n.max(1));
    let queue = std::sync::Mutex::new(jobs.into_iter().enumerate().collect::<Vec<_>>());
    let out = std::sync::Mutex::new((0..n).map(|_| None).collect::<Vec<Option<R>>>());
    std::thread::scope(|s| {
        for _ in 0..threads {
            s.spawn(|| loop {
                let job = queue.lock().unwrap().pop();
                match job {
                    Some((i, j)) => {
                        let r = f(j);
                        out.lock().unwrap()[i] = Some(r);
                    }
                    None => break,
                }
            });
        }
    });
    out.into_inner().unwrap().into_iter().map(|x| x.unwrap()).collect()
}
