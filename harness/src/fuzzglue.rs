//! Glue between the cargo-fuzz targets (../fuzz) and the property checks: the bytes libFuzzer
//! produces are decoded into the same `Input` values the proptest-driven checks use, and the
//! semantic oracle of ONE property (env AISVERIF_ARM, default C01) judges them inside the target.
//! A failure prints `FUZZ-FAILURE property=<ID> ...` and aborts, so libFuzzer saves the input;
//! `aisverif fuzz-convert` turns a saved input into an ordinary replay file.

use crate::adapter::{self, Config};
use crate::engine::{load_findings, CheckFn, Input, Line, Rec, Verdict};
use crate::refmodel::build;
use std::sync::OnceLock;

struct Armed {
    prop: &'static str,
    check: CheckFn,
    listed: Vec<String>,
}

static ARMED: OnceLock<Armed> = OnceLock::new();

fn armed() -> &'static Armed {
    ARMED.get_or_init(|| {
        // libfuzzer-sys installs a hook that aborts on every panic; ours records panics raised
        // inside the library (they are judged by the oracle) and prints the harness's own.
        adapter::install_panic_hook();
        if let Err(e) = crate::refmodel::selftest() {
            eprintln!("reference model self-test failed: {}", e);
            std::process::exit(2);
        }
        let id = std::env::var("AISVERIF_ARM").unwrap_or_else(|_| "C01".to_string());
        let prop: &'static str = match crate::props::ALL.iter().find(|p| **p == id) {
            Some(p) => p,
            None => {
                eprintln!("AISVERIF_ARM={} is not a property id", id);
                std::process::exit(2);
            }
        };
        let listed = load_findings().into_iter().filter(|f| f.property == prop).map(|f| f.sig).collect();
        Armed { prop, check: crate::props::check_fn(prop), listed }
    })
}

pub fn configs_for(prop: &str) -> Vec<&'static dyn Config> {
    match prop {
        "C01" => adapter::configs().to_vec(),
        "C18" => vec![&adapter::NONE],
        _ => vec![&adapter::STD],
    }
}

/// which properties can judge a line history / a payload-function input
pub fn takes_history(prop: &str) -> bool {
    matches!(prop, "C01" | "C02" | "C05" | "C06" | "C07" | "C08" | "C17" | "C18" | "C19")
}
pub fn takes_payload(prop: &str) -> bool {
    matches!(prop, "C01" | "C04" | "C09" | "C10" | "C11" | "C12" | "C13" | "C14" | "C15" | "C16" | "C18")
}
pub fn takes_unarmor(prop: &str) -> bool {
    matches!(prop, "C01" | "C03" | "C18")
}

fn judge(input: &Input) {
    let a = armed();
    for cfg in configs_for(a.prop) {
        let mut rec = Rec::default();
        match (a.check)("fuzz", cfg, input, &mut rec) {
            Verdict::Fail { expected, observed } => fail(a.prop, cfg.name(), input, &expected, &observed),
            Verdict::Known { sig, expected, observed } => {
                if !a.listed.iter().any(|s| s == sig) {
                    fail(a.prop, cfg.name(), input, &expected, &format!("{} [signature {} not listed]", observed, sig));
                }
            }
            _ => {}
        }
    }
}

fn fail(prop: &str, cfg: &str, input: &Input, expected: &str, observed: &str) -> ! {
    eprintln!(
        "FUZZ-FAILURE property={} config={} expected: {} ; observed: {} ; input: {}",
        prop,
        cfg,
        crate::util::clip(expected, 500),
        crate::util::clip(observed, 500),
        crate::util::clip(&input.to_json().to_string(), 1500)
    );
    std::process::abort();
}

/// decode the bytes of the `fz_lines` target into an input for `prop`
pub fn decode_lines(data: &[u8], prop: &str) -> Option<Input> {
    if data.len() < 2 || !takes_history(prop) {
        return None;
    }
    let mask = data[0];
    let mut lines: Vec<Line> = Vec::new();
    for (i, raw) in data[1..].split(|b| *b == b'\n').enumerate().take(24) {
        let mut l = raw.to_vec();
        if l.last() == Some(&b'~') {
            l.pop();
        } else {
            build::fix_checksum(&mut l);
        }
        lines.push(Line::new(l, (mask >> (i % 8)) & 1 == 1));
    }
    if prop == "C17" {
        if lines.len() < 2 {
            return None;
        }
        let extra = lines.remove(0);
        let pos = (mask as usize >> 3) % (lines.len() + 1);
        return Some(Input::Insert { lines, pos, extra });
    }
    Some(Input::History { lines })
}

/// decode the bytes of the `fz_payload` target into an input for `prop`
pub fn decode_payload(data: &[u8], prop: &str) -> Option<Input> {
    if data.len() < 2 {
        return None;
    }
    let mode = data[0];
    let fill = (data[1] % 6) as usize;
    let bytes = data[2..].to_vec();
    if mode & 1 == 1 {
        if takes_unarmor(prop) {
            Some(Input::Unarmor { data: bytes, fill })
        } else {
            None
        }
    } else if takes_payload(prop) {
        Some(Input::Payload { bytes })
    } else if takes_unarmor(prop) {
        Some(Input::Unarmor { data: bytes, fill })
    } else {
        None
    }
}

pub fn lines_target(data: &[u8]) {
    let prop = armed().prop;
    if let Some(input) = decode_lines(data, prop) {
        judge(&input);
    }
}

pub fn payload_target(data: &[u8]) {
    let prop = armed().prop;
    if let Some(input) = decode_payload(data, prop) {
        judge(&input);
    }
}

/// seed corpus: every sentence of the repository's tests and README in the targets' input form,
/// plus a few multi-line histories
pub fn write_seeds(dir: &str) -> std::io::Result<()> {
    let lines_dir = format!("{}/fz_lines", dir);
    let payload_dir = format!("{}/fz_payload", dir);
    std::fs::create_dir_all(&lines_dir)?;
    std::fs::create_dir_all(&payload_dir)?;
    let sentences: [&[u8]; 12] = [
        b"!AIVDM,1,1,,B,E>kb9O9aS@7PUh10dh19@;0Tah2cWrfP:l?M`00003vP100,0*01",
        b"!AIVDM,1,1,,A,403OtVAv6s5l1o?I``E`4I?02<34,0*21",
        b"!AIVDM,1,1,,B,ENkb9U79PW@80Q67h10dh1T6@Hq;`0W8:peOH00003vP000,0*1C",
        b"!AIVDM,1,1,,A,E>kb9I99S@0`8@:9ah;0TahI7@@;V4=v:nv;h00003vP100,0*7A",
        b"!AIVDM,1,1,,,34RvgN500005tLTMfjiTs3u`0>`<,0*7A",
        b"\\s:2573345,c:1696241893*00\\!AIVDM,1,1,,A,E>kb9I99S@0`8@:9ah;0TahI7@@;V4=v:nv;h00003vP100,0*7A",
        b"!AIVDM,1,1,,B,177KQJ5000G?tO`K>RA1wUbN0TKH,0*5C",
        b"!AIVDM,1,1,,A,?03Owo@nwsI0D00,2*00",
        b"!AIVDM,1,1,,A,>5?Per18=HB1U:1@E=B0m<L,2*00",
        b"!AIVDM,1,1,,A,<5?SIj1;GbD07??4,0*00",
        b"!AIVDM,1,1,,A,85Mwp`1Kf3aCnsNvBWLi=wQuNhA5t43N`5nCuI=p<IBfVqnMgPGs,0*00",
        b"!AIVDM,1,1,,A,H42O55i18tMET00000000000000,2*00",
    ];
    let mut n = 0;
    for s in sentences.iter() {
        for mask in [0u8, 0xff] {
            let mut v = vec![mask];
            v.extend_from_slice(s);
            std::fs::write(format!("{}/s{:02}", lines_dir, n), &v)?;
            n += 1;
        }
    }
    let histories: [&[u8]; 5] = [
        b"\xff!AIVDM,2,1,1,B,53`soB8000010KSOW<0P4eDp4l6000000000000U0p<24t@P05H3S833CDP00000,0*78\n!AIVDM,2,2,1,B,0000000,2*26",
        b"\x00!AIVDM,3,1,7,A,15,0*00\n!AIVDM,3,2,7,A,26,0*00\n!AIVDM,3,3,7,A,37,0*00\n!AIVDM,3,3,7,A,48,0*00",
        b"\x00!AIVDM,2,1,,A,15,0*00\n!AIVDM,1,1,,B,177KQJ5000G?tO`K>RA1wUbN0TKH,0*5C\n!AIVDM,2,2,,A,26,0*00\n!AIVDM,2,2,,A,26,0*00",
        b"\x0f!AIVDM,4,1,2,A,1,0*00\n!AIVDM,4,2,2,A,2,0*00\n!AIVDM,4,3,2,A,3,0*00\n!AIVDM,4,2,2,A,4,0*00\n!AIVDM,4,4,2,A,5,0*00",
        b"\x00!AIVDM,1,1,,A,15,0*99~\n$AIVDO,01,001,009,,w,5*00\nnoise\n",
    ];
    for (i, h) in histories.iter().enumerate() {
        std::fs::write(format!("{}/h{:02}", lines_dir, i), h)?;
    }
    // payload seeds: the unarmoured form of the sentences above, and their armoured form for unarmor
    let mut k = 0;
    for s in sentences.iter() {
        if let crate::refmodel::nmea::Shape::WellFormed(f) = crate::refmodel::nmea::recognise(s) {
            if let Some(bytes) = crate::refmodel::armor::unarmor(&f.payload, f.fill as usize) {
                let mut v = vec![0u8, f.fill];
                v.extend_from_slice(&bytes);
                std::fs::write(format!("{}/p{:02}", payload_dir, k), &v)?;
            }
            let mut v = vec![1u8, f.fill];
            v.extend_from_slice(&f.payload);
            std::fs::write(format!("{}/u{:02}", payload_dir, k), &v)?;
            k += 1;
        }
    }
    // one exemplar of every layout at each of its specified lengths
    for &t in crate::refmodel::layout::SUPPORTED.iter() {
        for len in crate::refmodel::layout::standard_lengths(t) {
            let mut b = vec![0x5au8; len];
            crate::refmodel::layout::set_bits(&mut b, 0, 6, t as u64);
            let mut v = vec![0u8, 0];
            v.extend_from_slice(&b);
            std::fs::write(format!("{}/t{:02}-{}", payload_dir, t, len), &v)?;
        }
    }
    Ok(())
}
