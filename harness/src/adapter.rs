//! The three build configurations of the library, linked into this one process
//! (DESIGN.md 2.2), behind one object-safe interface.

use crate::outcome::*;
use std::cell::RefCell;
use std::sync::atomic::{AtomicU64, Ordering};

pub trait ParserObj {
    fn parse(&mut self, line: &[u8], decode: bool) -> Outcome;
    fn parse_conv_opt(&mut self, line: &[u8], decode: bool) -> (Outcome, Option<Option<Sent>>);
    fn parse_conv_res(&mut self, line: &[u8], decode: bool) -> (Outcome, Option<Result<Sent, ErrCat>>);
    /// derived `Debug` of the `AisParser` — printed in replays for diagnosis, never an oracle
    fn debug(&self) -> String;
}

pub trait Config: Sync {
    fn name(&self) -> &'static str;
    fn new_parser(&self) -> Box<dyn ParserObj>;
    fn unarmor(&self, data: &[u8], fill: usize) -> PRes<Vec<u8>>;
    /// `messages::parse`, Ok rendered with `{:?}`
    fn parse_msg(&self, bytes: &[u8]) -> PRes<String>;
    /// `messages::parse`, Ok value dropped (cheap; for totality sweeps)
    fn parse_msg_ok(&self, bytes: &[u8]) -> PRes<()>;
    /// `ShipType::parse(code)` rendered, and `u8::from` of it when present
    fn shiptype_parse(&self, code: u8) -> PRes<(String, Option<u8>)>;
    /// the rate of turn of a type 1-3 message through its PUBLIC accessors only:
    /// None = no message / not a position report; Some(None) = absent; Some(Some((rate, direction)))
    fn rot_probe(&self, bytes: &[u8]) -> Option<Option<(Option<f32>, String)>>;
    /// canonical one-line renderings for the fidelity pass (canon_body.rs, shared with exec_real)
    fn canon_history(&self, lines: &[(Vec<u8>, bool)]) -> Vec<String>;
    fn canon_parse(&self, bytes: &[u8]) -> String;
    fn canon_unarmor(&self, data: &[u8], fill: usize) -> String;
}

pub mod cfg_std {
    use ais_std as ais;
    const NAME: &str = "std";
    include!("adapter_body.rs");
}
pub mod cfg_alloc {
    use ais_alloc as ais;
    const NAME: &str = "alloc";
    include!("adapter_body.rs");
}
pub mod cfg_none {
    use ais_none as ais;
    const NAME: &str = "none";
    include!("adapter_body.rs");
}

pub static STD: cfg_std::C = cfg_std::C;
pub static ALLOC: cfg_alloc::C = cfg_alloc::C;
pub static NONE: cfg_none::C = cfg_none::C;

pub fn configs() -> [&'static dyn Config; 3] {
    [&STD, &ALLOC, &NONE]
}

pub fn config_by_name(n: &str) -> Option<&'static dyn Config> {
    configs().into_iter().find(|c| c.name() == n)
}

// ---- panic capture -------------------------------------------------------------------------

thread_local! {
    static LAST_PANIC: RefCell<Option<String>> = const { RefCell::new(None) };
    static IN_LIB: std::cell::Cell<bool> = const { std::cell::Cell::new(false) };
}

/// Run a call into the library under `catch_unwind`; panics raised inside are recorded
/// silently, panics anywhere else (bugs of this harness) are printed as usual.
pub fn guarded<T>(f: impl FnOnce() -> T) -> Result<T, String> {
    IN_LIB.with(|c| c.set(true));
    let r = std::panic::catch_unwind(std::panic::AssertUnwindSafe(f));
    IN_LIB.with(|c| c.set(false));
    r.map_err(|_| take_panic_msg())
}

/// Installs a silent panic hook that records message and location per thread.
pub fn install_panic_hook() {
    std::panic::set_hook(Box::new(|info| {
        let msg = if let Some(s) = info.payload().downcast_ref::<&str>() {
            s.to_string()
        } else if let Some(s) = info.payload().downcast_ref::<String>() {
            s.clone()
        } else {
            "<non-string panic payload>".to_string()
        };
        let loc = info
            .location()
            .map(|l| format!("{}:{}", l.file(), l.line()))
            .unwrap_or_default();
        if IN_LIB.with(|c| c.get()) {
            LAST_PANIC.with(|c| *c.borrow_mut() = Some(format!("{} at {}", msg, loc)));
        } else {
            eprintln!("harness panic (bug in /verif, not a verdict): {} at {}", msg, loc);
        }
    }));
}

pub fn take_panic_msg() -> String {
    LAST_PANIC
        .with(|c| c.borrow_mut().take())
        .unwrap_or_else(|| "<panic, message not captured>".to_string())
}

// ---- heartbeat for the watchdog ----------------------------------------------------------------

pub static BEATS: AtomicU64 = AtomicU64::new(0);

thread_local! {
    static LOCAL_BEATS: std::cell::Cell<u32> = const { std::cell::Cell::new(0) };
}

/// Called on every library call; flushed to the shared counter every 256 calls so that
/// 16 worker threads do not fight over one cache line.
#[inline]
pub fn beat() {
    LOCAL_BEATS.with(|c| {
        let v = c.get() + 1;
        if v >= 256 {
            c.set(0);
            BEATS.fetch_add(256, Ordering::Relaxed);
        } else {
            c.set(v);
        }
    });
}
