//! R4 — reference decoder for the 21 supported message layouts, written from the bit tables of
//! ITU-R M.1371-5 and the property statements C04, C09–C16. It is a pure function of the
//! unarmoured bytes: `refdecode(bytes)` says, for every public field of the decoded message that
//! some property pins down, where its bits are and what value must be reported.
//!
//! Generators do not need a separate encoder: they take any byte string, ask `refdecode` for the
//! field spans, overwrite a span with the value they want to place there (`set_bits`), and ask
//! again. The expectation is always recomputed from the final bytes.

use std::fmt;

// ------------------------------------------------------------------------------------------
// bit access

pub fn get_bits(b: &[u8], start: usize, w: usize) -> u64 {
    debug_assert!(w <= 64);
    let mut v = 0u64;
    for i in start..start + w {
        v = (v << 1) | ((b[i / 8] >> (7 - i % 8)) & 1) as u64;
    }
    v
}

pub fn set_bits(b: &mut [u8], start: usize, w: usize, v: u64) {
    for k in 0..w {
        let i = start + k;
        let bit = ((v >> (w - 1 - k)) & 1) as u8;
        let m = 1u8 << (7 - i % 8);
        if bit == 1 {
            b[i / 8] |= m;
        } else {
            b[i / 8] &= !m;
        }
    }
}

pub fn signed(v: u64, w: usize) -> i64 {
    if w < 64 && (v >> (w - 1)) & 1 == 1 {
        (v as i64) - (1i64 << w)
    } else {
        v as i64
    }
}

// ------------------------------------------------------------------------------------------
// expectations

#[derive(Clone, Copy, Debug, PartialEq, Eq, Hash, PartialOrd, Ord)]
pub enum Prop {
    C04,
    C09,
    C10,
    C11,
    C12,
    C13,
    C14,
    C15,
    C16,
}

impl Prop {
    pub fn id(self) -> &'static str {
        match self {
            Prop::C04 => "C04",
            Prop::C09 => "C09",
            Prop::C10 => "C10",
            Prop::C11 => "C11",
            Prop::C12 => "C12",
            Prop::C13 => "C13",
            Prop::C14 => "C14",
            Prop::C15 => "C15",
            Prop::C16 => "C16",
        }
    }
    pub fn from_id(s: &str) -> Option<Prop> {
        Some(match s {
            "C04" => Prop::C04,
            "C09" => Prop::C09,
            "C10" => Prop::C10,
            "C11" => Prop::C11,
            "C12" => Prop::C12,
            "C13" => Prop::C13,
            "C14" => Prop::C14,
            "C15" => Prop::C15,
            "C16" => Prop::C16,
            _ => return None,
        })
    }
}

#[derive(Clone, PartialEq)]
pub enum Pat {
    Int(i128),
    Bool(bool),
    Str(String),
    Bytes(Vec<u8>),
    IsNone,
    IsSome,
    SomeInt(i128),
    /// plain f32 field: |observed - exact| <= ulps * ulp_f32(exact)
    Float { exact: f64, ulps: u32 },
    /// `Some(x)` with x as above. An observed `None` fails too: the statement promises the scaled
    /// value "for every raw value" (C11 judges presence as well; the overlap is deliberate)
    SomeFloatIfPresent { exact: f64, ulps: u32 },
    /// the value's Debug rendering equals one of these
    Render(Vec<String>),
    ListLen(usize),
    /// name of the enum variant / struct
    NodeName(&'static str),
}

impl fmt::Debug for Pat {
    fn fmt(&self, f: &mut fmt::Formatter<'_>) -> fmt::Result {
        match self {
            Pat::Int(i) => write!(f, "{}", i),
            Pat::Bool(b) => write!(f, "{}", b),
            Pat::Str(s) => write!(f, "{:?}", s),
            Pat::Bytes(b) => write!(f, "bytes[{}]:{}", b.len(), crate::util::clip(&crate::util::hex(b), 80)),
            Pat::IsNone => write!(f, "None"),
            Pat::IsSome => write!(f, "Some(_)"),
            Pat::SomeInt(i) => write!(f, "Some({})", i),
            Pat::Float { exact, ulps } => write!(f, "{:.9} (+-{} ulp)", exact, ulps),
            Pat::SomeFloatIfPresent { exact, ulps } => write!(f, "Some({:.9}) (+-{} ulp)", exact, ulps),
            Pat::Render(v) => {
                if v.len() == 1 {
                    write!(f, "{}", v[0])
                } else {
                    write!(f, "one of {:?}", v)
                }
            }
            Pat::ListLen(n) => write!(f, "list of {} element(s)", n),
            Pat::NodeName(n) => write!(f, "variant {}", n),
        }
    }
}

/// What kind of values are interesting in this span (a hint for generators only).
#[derive(Clone, Debug, PartialEq)]
pub enum Hint {
    Plain,
    /// raw values at which the reported value changes character (sentinels)
    Sentinels(Vec<u64>),
    /// 6-bit text of this many characters
    Text(usize),
    /// controls the structure of the rest of the message (part number, selector, time-out)
    Structural,
    Spare,
    Bytes,
}

#[derive(Clone, Debug)]
pub struct FieldExp {
    /// path inside the message struct, e.g. `mmsi`, `acks.1.seq_num`, `radio_status.0.sync_state`
    pub path: String,
    pub start: usize,
    pub width: usize,
    pub hint: Hint,
    pub checks: Vec<(Prop, Pat)>,
}

#[derive(Clone, Debug)]
pub struct RefDecoded {
    pub mtype: u8,
    /// name of the `AisMessage` variant
    pub variant: &'static str,
    /// false when the payload is longer than the protocol allows: then only "whatever is
    /// reported must equal the bits at its specified position" applies, not "must decode"
    pub must_be_ok: bool,
    pub fields: Vec<FieldExp>,
}

#[derive(Clone, Debug)]
pub enum RefMsg {
    /// type value outside the supported set (or no type bits at all): must be an error
    Unsupported(u8),
    /// shorter than the mandatory part of its type: must be an error
    TooShort { mtype: u8, need_bytes: usize },
    /// a length no property pins down (only totality is asserted)
    Unpinned { mtype: u8, why: &'static str },
    Msg(RefDecoded),
}

pub const SUPPORTED: [u8; 23] = [1, 2, 3, 4, 5, 6, 7, 8, 9, 10, 11, 12, 13, 14, 15, 16, 17, 18, 19, 20, 21, 24, 27];

pub fn variant_of(t: u8) -> Option<&'static str> {
    Some(match t {
        1..=3 => "PositionReport",
        4 => "BaseStationReport",
        5 => "StaticAndVoyageRelatedData",
        6 => "BinaryAddressedMessage",
        7 => "BinaryAcknowledgeMessage",
        8 => "BinaryBroadcastMessage",
        9 => "StandardAircraftPositionReport",
        10 => "UtcDateInquiry",
        11 => "UtcDateResponse",
        12 => "AddressedSafetyRelatedMessage",
        13 => "SafetyRelatedAcknowledgment",
        14 => "SafetyRelatedBroadcastMessage",
        15 => "Interrogation",
        16 => "AssignmentModeCommand",
        17 => "DgnssBroadcastBinaryMessage",
        18 => "StandardClassBPositionReport",
        19 => "ExtendedClassBPositionReport",
        20 => "DataLinkManagementMessage",
        21 => "AidToNavigationReport",
        24 => "StaticDataReport",
        27 => "LongRangeAisBroadcastMessage",
        _ => return None,
    })
}

/// (mandatory bits, protocol maximum bits) per type; type 24 depends on the part and is handled
/// in `refdecode`.
pub fn length_limits(t: u8) -> Option<(usize, usize)> {
    Some(match t {
        1..=4 | 9 | 11 | 18 => (168, 168),
        5 => (302, 424),
        6 => (88, 1008),
        7 | 13 => (72, 168),
        8 => (56, 1008),
        10 => (72, 72),
        12 => (78, 1008),
        14 => (46, 1008),
        15 => (76, 160),
        16 => (92, 144),
        17 => (80, 816),
        19 => (312, 312),
        20 => (70, 160),
        21 => (272, 360),
        24 => (40, 168),
        27 => (95, 96),
        _ => return None,
    })
}

pub fn bytes_for_bits(bits: usize) -> usize {
    (bits + 7) / 8
}

/// bytes a receiver gets for a message of `bits` bits after 6-bit armouring and unarmouring
pub fn bytes_after_armor(bits: usize) -> usize {
    let chars = (bits + 5) / 6;
    (chars * 6 + 7) / 8
}

// ------------------------------------------------------------------------------------------
// enum tables (M.1371-5 names -> the crate's public variant names)

pub fn nav_status(code: u64) -> String {
    let n = match code {
        0 => "UnderWayUsingEngine",
        1 => "AtAnchor",
        2 => "NotUnderCommand",
        3 => "RestrictedManouverability",
        4 => "ConstrainedByDraught",
        5 => "Moored",
        6 => "Aground",
        7 => "EngagedInFishing",
        8 => "UnderWaySailing",
        9 => "ReservedForHSC",
        10 => "ReservedForWIG",
        11 => "Reserved01",
        12 => "Reserved02",
        13 => "Reserved03",
        14 => "AisSartIsActive",
        _ => return "None".into(),
    };
    format!("Some({})", n)
}

pub fn maneuver(code: u64) -> String {
    match code {
        0 => "None".into(),
        1 => "Some(NoSpecialManeuver)".into(),
        2 => "Some(SpecialManeuver)".into(),
        c => format!("Some(Unknown({}))", c),
    }
}

pub fn epfd(code: u64) -> String {
    let n = match code {
        0 | 15 => return "None".into(),
        1 => "Gps",
        2 => "Glonass",
        3 => "CombinedGpsAndGlonass",
        4 => "LoranC",
        5 => "Chayka",
        6 => "IntegratedNavigationSystem",
        7 => "Surveyed",
        8 => "Galileo",
        c => return format!("Some(Unknown({}))", c),
    };
    format!("Some({})", n)
}

/// first digit -> category name, as in M.1371-5 table 53
pub fn ship_type(code: u64) -> String {
    let c = code as u8;
    if c == 0 || c >= 100 {
        return "None".into();
    }
    let s = match c {
        1..=19 => format!("Reserved({})", c),
        20 => "WingInGround".into(),
        21..=24 => format!("WingInGroundHazardousCategory{}", (b'A' + (c - 21)) as char),
        25..=29 => format!("WingInGroundReserved({})", c),
        30 => "Fishing".into(),
        31 => "Towing".into(),
        32 => "TowingLarge".into(),
        33 => "Dredging".into(),
        34 => "DivingOps".into(),
        35 => "MilitaryOps".into(),
        36 => "Sailing".into(),
        37 => "PleasureCraft".into(),
        38 | 39 => format!("Reserved({})", c),
        40 => "HighSpeedCraft".into(),
        41..=44 => format!("HighSpeedCraftHazardousCategory{}", (b'A' + (c - 41)) as char),
        45..=48 => format!("HighSpeedCraftReserved({})", c),
        49 => "HighSpeedCraftNoAdditionalInformation".into(),
        50 => "PilotVessel".into(),
        51 => "SearchAndRescueVessel".into(),
        52 => "Tug".into(),
        53 => "PortTender".into(),
        54 => "AntiPollutionEquipment".into(),
        55 => "LawEnforcement".into(),
        56 | 57 => format!("SpareLocalVessel({})", c),
        58 => "MedicalTransport".into(),
        59 => "NoncombatantShip".into(),
        60..=99 => {
            let cat = match c / 10 {
                6 => "Passenger",
                7 => "Cargo",
                8 => "Tanker",
                _ => "Other",
            };
            match c % 10 {
                0 => cat.to_string(),
                d @ 1..=4 => format!("{}HazardousCategory{}", cat, (b'A' + (d - 1)) as char),
                5..=8 => format!("{}Reserved({})", cat, c),
                _ => format!("{}NoAdditionalInformation", cat),
            }
        }
        _ => unreachable!(),
    };
    format!("Some({})", s)
}

pub fn navaid(code: u64) -> String {
    let n = match code {
        0 => return "None".into(),
        1 => "ReferencePoint",
        2 => "Racon",
        3 => "FixedStructureOffShore",
        4 => "Spare",
        5 => "LightWithoutSectors",
        6 => "LightWithSectors",
        7 => "LeadingLightFront",
        8 => "LeadingLightRear",
        9 => "BeaconCardinalN",
        10 => "BeaconCardinalE",
        11 => "BeaconCardinalS",
        12 => "BeaconCardinalW",
        13 => "BeaconPortHand",
        14 => "BeaconStarboardHand",
        15 => "BeaconPreferredChannelPortHand",
        16 => "BeaconPreferredChannelStarboardHand",
        17 => "BeaconIsolatedDanger",
        18 => "BeaconSafeWater",
        19 => "BeaconSpecialMark",
        20 => "CardinalMarkN",
        21 => "CardinalMarkE",
        22 => "CardinalMarkS",
        23 => "CardinalMarkW",
        24 => "PortHandMark",
        25 => "StarboardHandMark",
        26 => "PreferredChannelPortHand",
        27 => "PreferredChannelStarboardHand",
        28 => "IsolatedDanger",
        29 => "SafeWater",
        30 => "SpecialMark",
        31 => "LightVesselOrLanbyOrRigs",
        c => return format!("Some(Unknown({}))", c),
    };
    format!("Some({})", n)
}

pub fn sync_state(code: u64) -> String {
    match code {
        0 => "UtcDirect".into(),
        1 => "UtcIndirect".into(),
        2 => "BaseStation".into(),
        3 => "NumberOfReceivedStations".into(),
        c => format!("Unknown({})", c),
    }
}

#[derive(Clone, Copy, Debug, PartialEq, Eq)]
pub enum EnumKind {
    NavStatus,
    Maneuver,
    Epfd,
    ShipType,
    Navaid,
    Dte,
    Accuracy,
    AssignedMode,
    CarrierSense,
}

pub fn enum_render(k: EnumKind, code: u64) -> String {
    match k {
        EnumKind::NavStatus => nav_status(code),
        EnumKind::Maneuver => maneuver(code),
        EnumKind::Epfd => epfd(code),
        EnumKind::ShipType => ship_type(code),
        EnumKind::Navaid => navaid(code),
        EnumKind::Dte => if code == 0 { "Ready".into() } else { "NotReady".into() },
        EnumKind::Accuracy => if code == 0 { "Unaugmented".into() } else { "Dgps".into() },
        EnumKind::AssignedMode => if code == 0 { "Autonomous".into() } else { "Assigned".into() },
        EnumKind::CarrierSense => if code == 0 { "Sotdma".into() } else { "CarrierSense".into() },
    }
}

// ------------------------------------------------------------------------------------------
// 6-bit text

pub fn sixbit_ascii(v: u64) -> char {
    if v < 32 {
        (v as u8 + 64) as char
    } else {
        v as u8 as char
    }
}

/// decode `nchars` characters at `start`, then strip leading spaces, trailing '@', trailing spaces
pub fn text_at(b: &[u8], start: usize, nchars: usize) -> String {
    let raw: String = (0..nchars).map(|i| sixbit_ascii(get_bits(b, start + 6 * i, 6))).collect();
    trim_text(&raw)
}

pub fn trim_text(raw: &str) -> String {
    let s = raw.trim_start_matches(' ');
    let s = s.trim_end_matches('@');
    let s = s.trim_end_matches(' ');
    s.to_string()
}

// ------------------------------------------------------------------------------------------
// the builder used by the per-type descriptions

struct B<'a> {
    b: &'a [u8],
    pos: usize,
    out: Vec<FieldExp>,
    prefix: String,
}

pub const ULP_COORD: u32 = 2;
pub const ULP_COORD_T27: u32 = 3;
pub const ULP_TENTH: u32 = 1;

impl<'a> B<'a> {
    fn nbits(&self) -> usize {
        self.b.len() * 8
    }
    fn remaining(&self) -> usize {
        self.nbits() - self.pos
    }
    fn path(&self, name: &str) -> String {
        if self.prefix.is_empty() {
            name.to_string()
        } else if name.is_empty() {
            self.prefix.trim_end_matches('.').to_string()
        } else {
            format!("{}{}", self.prefix, name)
        }
    }
    fn raw(&mut self, w: usize) -> u64 {
        let v = get_bits(self.b, self.pos, w);
        self.pos += w;
        v
    }
    fn push(&mut self, name: &str, start: usize, width: usize, hint: Hint, checks: Vec<(Prop, Pat)>) {
        let path = self.path(name);
        self.out.push(FieldExp { path, start, width, hint, checks });
    }
    fn spare(&mut self, w: usize) {
        let st = self.pos;
        self.pos += w;
        self.out.push(FieldExp { path: format!("<spare@{}>", st), start: st, width: w, hint: Hint::Spare, checks: vec![] });
    }
    /// unsigned integer reported as is (C04)
    fn uint(&mut self, name: &str, w: usize) -> u64 {
        let st = self.pos;
        let v = self.raw(w);
        // 30-bit fields are MMSIs: the station classes of ITU-R M.585 are the values at which a
        // decoder is most tempted to special-case something (SART 970, MOB 972, EPIRB 974, SAR aircraft
        // 111, aids 99, craft associated 98, coast stations 00, group 0)
        let hint = if w == 30 {
            Hint::Sentinels(vec![970_010_000, 972_000_001, 974_123_456, 111_232_001, 992_351_000, 981_234_567, 2_320_001, 23_200_001, 999_999_999, (1 << 30) - 1])
        } else if w == 6 && (name == "timestamp" || name == "utc_second") {
            // 60 = not available, 61 manual input, 62 dead reckoning, 63 positioning system inoperative: all
            // passed through as numbers, and exactly the values a decoder may be tempted to act on
            Hint::Sentinels(vec![60, 61, 62, 63, 59])
        } else {
            Hint::Plain
        };
        self.push(name, st, w, hint, vec![(Prop::C04, Pat::Int(v as i128))]);
        v
    }
    fn uint_owned(&mut self, name: &str, w: usize, owners: &[Prop]) -> u64 {
        let st = self.pos;
        let v = self.raw(w);
        self.push(name, st, w, Hint::Plain, owners.iter().map(|p| (*p, Pat::Int(v as i128))).collect());
        v
    }
    fn flag(&mut self, name: &str) -> bool {
        let st = self.pos;
        let v = self.raw(1) == 1;
        self.push(name, st, 1, Hint::Plain, vec![(Prop::C04, Pat::Bool(v))]);
        v
    }
    /// the common header: type, repeat, MMSI
    fn header(&mut self) -> u8 {
        let st = self.pos;
        let t = self.raw(6);
        self.push("message_type", st, 6, Hint::Structural, vec![(Prop::C09, Pat::Int(t as i128)), (Prop::C04, Pat::Int(t as i128))]);
        self.uint("repeat_indicator", 2);
        self.uint("mmsi", 30);
        t as u8
    }
    /// unsigned with a 'not available' code: absent iff raw == code, else Some(raw) (C11; C04 when present)
    fn opt_uint(&mut self, name: &str, w: usize, sentinel: u64) {
        let st = self.pos;
        let v = self.raw(w);
        let checks = if v == sentinel {
            vec![(Prop::C11, Pat::IsNone)]
        } else {
            vec![(Prop::C11, Pat::SomeInt(v as i128)), (Prop::C04, Pat::SomeInt(v as i128))]
        };
        self.push(name, st, w, Hint::Sentinels(vec![sentinel]), checks);
    }
    /// unsigned / div with a sentinel -> Option<f32>
    fn opt_scaled(&mut self, name: &str, w: usize, sentinel: u64, div: f64, ulps: u32) {
        let st = self.pos;
        let v = self.raw(w);
        let checks = if v == sentinel {
            vec![(Prop::C11, Pat::IsNone)]
        } else {
            vec![(Prop::C11, Pat::IsSome), (Prop::C10, Pat::SomeFloatIfPresent { exact: v as f64 / div, ulps })]
        };
        self.push(name, st, w, Hint::Sentinels(vec![sentinel]), checks);
    }
    /// two's-complement coordinate of width w, degrees = raw/div, absent iff raw == sentinel
    fn coord(&mut self, name: &str, w: usize, sentinel: i64, div: f64, ulps: u32) {
        let st = self.pos;
        let rawu = self.raw(w);
        let v = signed(rawu, w);
        let checks = if v == sentinel {
            vec![(Prop::C11, Pat::IsNone)]
        } else {
            vec![(Prop::C11, Pat::IsSome), (Prop::C10, Pat::SomeFloatIfPresent { exact: v as f64 / div, ulps })]
        };
        let min_neg = 1u64 << (w - 1);
        let m = (1u64 << w) - 1;
        // the field's own code first; then the extremes, and the codes of the *other* resolution
        // (ordinary positions here, which must not be mistaken for 'not available')
        self.push(name, st, w, Hint::Sentinels(vec![sentinel as u64 & m, min_neg, min_neg - 1, m, 108_600 & m, 54_600 & m, 108_600_000 & m, 54_600_000 & m]), checks);
    }
    fn lon28(&mut self, name: &str) {
        self.coord(name, 28, 108_600_000, 600_000.0, ULP_COORD)
    }
    fn lat27(&mut self, name: &str) {
        self.coord(name, 27, 54_600_000, 600_000.0, ULP_COORD)
    }
    fn enumf(&mut self, name: &str, w: usize, k: EnumKind) -> u64 {
        let st = self.pos;
        let v = self.raw(w);
        self.push(name, st, w, Hint::Plain, vec![(Prop::C12, Pat::Render(vec![enum_render(k, v)]))]);
        v
    }
    fn text(&mut self, name: &str, nchars: usize, extra: &[Prop]) {
        let st = self.pos;
        let s = text_at(self.b, st, nchars);
        self.pos += nchars * 6;
        let mut checks = vec![(Prop::C13, Pat::Str(s.clone()))];
        for p in extra {
            checks.push((*p, Pat::Str(s.clone())));
        }
        self.push(name, st, nchars * 6, Hint::Text(nchars), checks);
    }

    // ---- communication state (C16) ----
    fn sotdma(&mut self, name: &str) {
        let st = self.pos;
        let sync = self.raw(2);
        let timeout = self.raw(3);
        let sub = self.raw(14);
        let p = format!("{}.0.", name);
        self.push(name, st, 19, Hint::Structural, vec![(Prop::C16, Pat::NodeName("Sotdma"))]);
        self.push(&format!("{}sync_state", p), st, 2, Hint::Plain, vec![(Prop::C16, Pat::Render(vec![sync_state(sync)])), (Prop::C12, Pat::Render(vec![sync_state(sync)]))]);
        self.push(&format!("{}slot_timeout", p), st + 2, 3, Hint::Structural, vec![(Prop::C16, Pat::Int(timeout as i128))]);
        let renders = match timeout {
            0 => vec![format!("SlotOffset({})", sub)],
            1 => {
                let hour = (sub >> 9) & 0x1f;
                let min7 = (sub >> 2) & 0x7f;
                let mut v = vec![format!("UtcHourAndMinute({}, {})", hour, min7)];
                if min7 > 63 {
                    // the standard's minute field is 7 bits wide; every valid minute fits in
                    // six, and an implementation reading the low six bits is accepted
                    v.push(format!("UtcHourAndMinute({}, {})", hour, min7 & 0x3f));
                }
                v
            }
            2 | 4 | 6 => vec![format!("SlotNumber({})", sub)],
            _ => vec![format!("ReceivedStations({})", sub)],
        };
        self.push(&format!("{}sub_message", p), st + 5, 14, Hint::Plain, vec![(Prop::C16, Pat::Render(renders))]);
    }
    fn itdma(&mut self, name: &str) {
        let st = self.pos;
        let sync = self.raw(2);
        let incr = self.raw(13);
        let nslots = self.raw(3);
        let keep = self.raw(1);
        let p = format!("{}.0.", name);
        self.push(name, st, 19, Hint::Structural, vec![(Prop::C16, Pat::NodeName("Itdma"))]);
        self.push(&format!("{}sync_state", p), st, 2, Hint::Plain, vec![(Prop::C16, Pat::Render(vec![sync_state(sync)])), (Prop::C12, Pat::Render(vec![sync_state(sync)]))]);
        self.push(&format!("{}slot_increment", p), st + 2, 13, Hint::Plain, vec![(Prop::C16, Pat::Int(incr as i128))]);
        self.push(&format!("{}num_slots", p), st + 15, 3, Hint::Plain, vec![(Prop::C16, Pat::Int(nslots as i128))]);
        self.push(&format!("{}keep", p), st + 18, 1, Hint::Plain, vec![(Prop::C16, Pat::Bool(keep == 1))]);
    }
    /// selector bit, then the state it selects
    fn selected_state(&mut self, name: &str) {
        let st = self.pos;
        let sel = self.raw(1);
        self.out.push(FieldExp { path: format!("<selector@{}>", st), start: st, width: 1, hint: Hint::Structural, checks: vec![] });
        if sel == 0 {
            self.sotdma(name)
        } else {
            self.itdma(name)
        }
    }
}

/// Expectation for the communication state of a type-9 message *as if* it were an always-SOTDMA
/// state starting at bit 148 — the reading of the known finding `type9-commstate-one-bit-early`.
pub fn type9_one_bit_early(bytes: &[u8]) -> Vec<FieldExp> {
    let mut b = B { b: bytes, pos: 148, out: vec![], prefix: String::new() };
    b.sotdma("radio_status");
    b.out
}

// ------------------------------------------------------------------------------------------
// the layouts

pub fn refdecode(bytes: &[u8]) -> RefMsg {
    if bytes.is_empty() {
        return RefMsg::Unsupported(0);
    }
    let t = (bytes[0] >> 2) as u8;
    let variant = match variant_of(t) {
        Some(v) => v,
        None => return RefMsg::Unsupported(t),
    };
    let (min_bits, max_bits) = length_limits(t).unwrap();
    let nbits = bytes.len() * 8;
    if nbits < min_bits {
        return RefMsg::TooShort { mtype: t, need_bytes: bytes_for_bits(min_bits) };
    }
    let mut must_be_ok = bytes.len() <= bytes_after_armor(max_bits);
    let mut b = B { b: bytes, pos: 0, out: Vec::with_capacity(24), prefix: String::new() };
    match t {
        1..=3 => {
            b.header();
            b.enumf("navigation_status", 4, EnumKind::NavStatus);
            // rate of turn: -128 (0x80) is 'not available'
            {
                let st = b.pos;
                let v = b.raw(8);
                let sv = signed(v, 8);
                // RateOfTurn's representation is private: the Debug tree is only asked whether the value
                // is present; the value itself is compared through rate() / direction() (props/payload.rs)
                let checks = if sv == -128 { vec![(Prop::C11, Pat::IsNone)] } else { vec![(Prop::C11, Pat::IsSome), (Prop::C04, Pat::IsSome)] };
                b.push("rate_of_turn", st, 8, Hint::Sentinels(vec![0x80]), checks);
            }
            b.opt_scaled("speed_over_ground", 10, 1023, 10.0, ULP_TENTH);
            b.enumf("position_accuracy", 1, EnumKind::Accuracy);
            b.lon28("longitude");
            b.lat27("latitude");
            b.opt_scaled("course_over_ground", 12, 3600, 10.0, ULP_TENTH);
            b.opt_uint("true_heading", 9, 511);
            b.uint("timestamp", 6);
            b.enumf("maneuver_indicator", 2, EnumKind::Maneuver);
            b.spare(3);
            b.flag("raim");
            if t == 3 {
                b.itdma("radio_status");
            } else {
                b.sotdma("radio_status");
            }
        }
        4 | 11 => {
            b.header();
            b.opt_uint("year", 14, 0);
            b.opt_uint("month", 4, 0);
            b.opt_uint("day", 5, 0);
            b.uint("hour", 5);
            b.opt_uint("minute", 6, 60);
            b.opt_uint("second", 6, 60);
            b.enumf("fix_quality", 1, EnumKind::Accuracy);
            b.lon28("longitude");
            b.lat27("latitude");
            b.enumf("epfd_type", 4, EnumKind::Epfd);
            b.spare(10);
            b.flag("raim");
            b.sotdma("radio_status");
        }
        5 => {
            b.header();
            b.uint("ais_version", 2);
            b.uint("imo_number", 30);
            b.text("callsign", 7, &[]);
            b.text("vessel_name", 20, &[]);
            b.enumf("ship_type", 8, EnumKind::ShipType);
            b.uint("dimension_to_bow", 9);
            b.uint("dimension_to_stern", 9);
            b.uint("dimension_to_port", 6);
            b.uint("dimension_to_starboard", 6);
            b.enumf("epfd_type", 4, EnumKind::Epfd);
            b.opt_uint("eta_month_utc", 4, 0);
            b.opt_uint("eta_day_utc", 5, 0);
            b.uint("eta_hour_utc", 5);
            b.opt_uint("eta_minute_utc", 6, 60);
            {
                let st = b.pos;
                let v = b.raw(8);
                b.push("draught", st, 8, Hint::Plain, vec![(Prop::C10, Pat::Float { exact: v as f64 / 10.0, ulps: ULP_TENTH })]);
            }
            // destination: as many whole characters as are present, at most 20
            let avail = b.remaining().min(120);
            let nchars = avail / 6;
            b.text("destination", nchars, &[Prop::C14]);
            let left = b.remaining();
            if nchars == 20 && left >= 1 {
                // the full layout: DTE is bit 422 (C12 for the mapping, C14 because its presence
                // depends on the length)
                let st = b.pos;
                let v = b.raw(1);
                let r = enum_render(EnumKind::Dte, v);
                b.push("dte", st, 1, Hint::Plain, vec![(Prop::C12, Pat::Render(vec![r.clone()])), (Prop::C14, Pat::Render(vec![r]))]);
                if b.remaining() >= 1 {
                    b.spare(1);
                }
            } else if left == 0 {
                // nothing follows the destination: DTE defaults to 'not ready'
                let pos = b.pos;
                b.push("dte", pos, 0, Hint::Plain, vec![(Prop::C14, Pat::Render(vec!["NotReady".into()]))]);
            } else {
                // a partial character's worth of bits follows a truncated destination: no
                // property says whether the next bit is the DTE; nothing asserted
            }
        }
        6 => {
            b.header();
            b.uint("seqno", 2);
            b.uint("dest_mmsi", 30);
            b.flag("retransmit");
            b.spare(1);
            b.uint_owned("dac", 10, &[Prop::C04, Prop::C15]);
            b.uint_owned("fid", 6, &[Prop::C04, Prop::C15]);
            let st = b.pos;
            let data = bytes[11..].to_vec();
            b.push("data", st, data.len() * 8, Hint::Bytes, vec![(Prop::C15, Pat::Bytes(data))]);
        }
        7 | 13 => {
            b.header();
            b.spare(2);
            let n = ((nbits - 40) / 32).min(4);
            let st = b.pos;
            b.push("acks", st, 0, Hint::Plain, vec![(Prop::C14, Pat::ListLen(n))]);
            for i in 0..n {
                b.prefix = format!("acks.{}.", i);
                b.uint("mmsi", 30);
                b.uint("seq_num", 2);
            }
            b.prefix.clear();
        }
        8 => {
            b.header();
            b.spare(2);
            b.uint_owned("dac", 10, &[Prop::C04, Prop::C15]);
            b.uint_owned("fid", 6, &[Prop::C04, Prop::C15]);
            let st = b.pos;
            let data = bytes[7..].to_vec();
            b.push("data", st, data.len() * 8, Hint::Bytes, vec![(Prop::C15, Pat::Bytes(data))]);
        }
        9 => {
            b.header();
            b.opt_uint("altitude", 12, 4095);
            // SAR aircraft speed: knots, undivided; 1023 = not available
            {
                let st = b.pos;
                let v = b.raw(10);
                let checks = if v == 1023 {
                    vec![(Prop::C11, Pat::IsNone)]
                } else {
                    vec![(Prop::C11, Pat::IsSome), (Prop::C10, Pat::SomeFloatIfPresent { exact: v as f64, ulps: 0 })]
                };
                b.push("speed_over_ground", st, 10, Hint::Sentinels(vec![1023]), checks);
            }
            b.enumf("position_accuracy", 1, EnumKind::Accuracy);
            b.lon28("longitude");
            b.lat27("latitude");
            b.opt_scaled("course_over_ground", 12, 3600, 10.0, ULP_TENTH);
            b.uint("timestamp", 6);
            b.spare(8);
            b.enumf("dte", 1, EnumKind::Dte);
            b.spare(3);
            b.enumf("assigned_mode", 1, EnumKind::AssignedMode);
            b.flag("raim");
            b.selected_state("radio_status");
        }
        10 => {
            b.header();
            b.spare(2);
            b.uint("dest_mmsi", 30);
            b.spare(2);
        }
        12 => {
            b.header();
            b.uint("seqno", 2);
            b.uint("dest_mmsi", 30);
            b.flag("retransmit");
            b.spare(1);
            let nchars = b.remaining() / 6;
            b.text("text", nchars, &[Prop::C14]);
        }
        14 => {
            b.header();
            b.spare(2);
            let nchars = b.remaining() / 6;
            b.text("text", nchars, &[Prop::C14]);
        }
        15 => {
            b.header();
            b.spare(2);
            let len = bytes.len();
            let zero_from = |from: usize| (from..nbits).all(|i| get_bits(bytes, i, 1) == 0);
            // first station, first request: always present
            b.prefix = "stations.0.".into();
            b.uint("mmsi", 30);
            b.prefix = "stations.0.messages.0.".into();
            b.uint("message_type", 6);
            if nbits >= 88 {
                b.opt_uint("slot_offset", 12, 0);
            }
            b.prefix.clear();
            let second_req = |b: &mut B, bytes: &[u8]| {
                // second request to the first station: spare(2) type(6) offset(12) at bit 88
                let ty = get_bits(bytes, 90, 6);
                let off = get_bits(bytes, 96, 12);
                b.pos = 88;
                b.spare(2);
                if ty != 0 || off != 0 {
                    b.push("stations.0.messages", 90, 0, Hint::Plain, vec![(Prop::C14, Pat::ListLen(2))]);
                    b.prefix = "stations.0.messages.1.".into();
                    b.uint("message_type", 6);
                    b.opt_uint("slot_offset", 12, 0);
                    b.prefix.clear();
                } else {
                    // an all-zero second request is 'unused'; reporting it or not is not pinned
                    b.pos = 108;
                }
            };
            match len {
                11 | 12 => {
                    // 88 bits (+ padding): one station, one request
                    if len == 11 || zero_from(88) {
                        b.push("stations", 40, 0, Hint::Plain, vec![(Prop::C14, Pat::ListLen(1))]);
                        b.push("stations.0.messages", 70, 0, Hint::Plain, vec![(Prop::C14, Pat::ListLen(1))]);
                    }
                }
                14 | 15 => {
                    // 110 bits (+ padding): one station, two requests
                    b.push("stations", 40, 0, Hint::Plain, vec![(Prop::C14, Pat::ListLen(1))]);
                    second_req(&mut b, bytes);
                }
                20 | 21 => {
                    // 160 bits (+ padding): two stations
                    second_req(&mut b, bytes);
                    b.pos = 108;
                    b.spare(2);
                    b.push("stations", 40, 0, Hint::Plain, vec![(Prop::C14, Pat::ListLen(2))]);
                    b.prefix = "stations.1.".into();
                    b.uint("mmsi", 30);
                    b.prefix = "stations.1.messages.0.".into();
                    b.uint("message_type", 6);
                    b.opt_uint("slot_offset", 12, 0);
                    b.prefix.clear();
                    b.spare(2);
                    if len == 20 || zero_from(160) {
                        b.push("stations.1.messages", 140, 0, Hint::Plain, vec![(Prop::C14, Pat::ListLen(1))]);
                    }
                }
                _ => {
                    // not a length the specification defines: list shapes are not pinned,
                    // and neither is acceptance
                    must_be_ok = false;
                }
            }
        }
        16 => {
            b.header();
            b.spare(2);
            b.uint("mmsi1", 30);
            b.uint("offset1", 12);
            b.uint("increment1", 10);
            if nbits >= 144 {
                for (name, w) in [("mmsi2", 30usize), ("offset2", 12), ("increment2", 10)] {
                    let st = b.pos;
                    let v = b.raw(w);
                    b.push(name, st, w, Hint::Plain, vec![(Prop::C14, Pat::IsSome), (Prop::C04, Pat::SomeInt(v as i128))]);
                }
            } else {
                let st = b.pos;
                for name in ["mmsi2", "offset2", "increment2"] {
                    b.push(name, st, 0, Hint::Plain, vec![(Prop::C14, Pat::IsNone)]);
                }
            }
        }
        17 => {
            if nbits < 120 {
                return RefMsg::Unpinned { mtype: 17, why: "type 17 of 80..119 bits (no correction-data header): not pinned" };
            }
            b.header();
            b.spare(2);
            b.coord("longitude", 18, 108_600, 600.0, ULP_COORD);
            b.coord("latitude", 17, 54_600, 600.0, ULP_COORD);
            b.spare(5);
            b.prefix = "payload.".into();
            b.uint_owned("message_type", 6, &[Prop::C04, Prop::C15]);
            b.uint_owned("station_id", 10, &[Prop::C04, Prop::C15]);
            b.uint_owned("z_count", 13, &[Prop::C04, Prop::C15]);
            b.uint_owned("sequence_number", 3, &[Prop::C04, Prop::C15]);
            b.uint_owned("n", 5, &[Prop::C04, Prop::C15]);
            b.uint_owned("health", 3, &[Prop::C04, Prop::C15]);
            let st = b.pos;
            let data = bytes[15..].to_vec();
            b.push("data", st, data.len() * 8, Hint::Bytes, vec![(Prop::C15, Pat::Bytes(data))]);
            b.prefix.clear();
        }
        18 => {
            b.header();
            b.spare(8);
            b.opt_scaled("speed_over_ground", 10, 1023, 10.0, ULP_TENTH);
            b.enumf("position_accuracy", 1, EnumKind::Accuracy);
            b.lon28("longitude");
            b.lat27("latitude");
            b.opt_scaled("course_over_ground", 12, 3600, 10.0, ULP_TENTH);
            b.opt_uint("true_heading", 9, 511);
            b.uint("timestamp", 6);
            b.spare(2);
            b.enumf("cs_unit", 1, EnumKind::CarrierSense);
            b.flag("has_display");
            b.flag("has_dsc");
            b.flag("whole_band");
            b.flag("accepts_message_22");
            b.enumf("assigned_mode", 1, EnumKind::AssignedMode);
            b.flag("raim");
            b.selected_state("radio_status");
        }
        19 => {
            b.header();
            b.spare(8);
            b.opt_scaled("speed_over_ground", 10, 1023, 10.0, ULP_TENTH);
            b.enumf("position_accuracy", 1, EnumKind::Accuracy);
            b.lon28("longitude");
            b.lat27("latitude");
            b.opt_scaled("course_over_ground", 12, 3600, 10.0, ULP_TENTH);
            b.opt_uint("true_heading", 9, 511);
            b.uint("timestamp", 6);
            b.spare(4);
            b.text("name", 20, &[]);
            b.enumf("type_of_ship_and_cargo", 8, EnumKind::ShipType);
            b.uint("dimension_to_bow", 9);
            b.uint("dimension_to_stern", 9);
            b.uint("dimension_to_port", 6);
            b.uint("dimension_to_starboard", 6);
            b.enumf("epfd_type", 4, EnumKind::Epfd);
            b.flag("raim");
            b.enumf("dte", 1, EnumKind::Dte);
            b.enumf("assigned_mode", 1, EnumKind::AssignedMode);
            b.spare(4);
        }
        20 => {
            b.header();
            b.spare(2);
            let n = ((nbits - 40) / 30).min(4);
            let st = b.pos;
            b.push("reservations", st, 0, Hint::Plain, vec![(Prop::C14, Pat::ListLen(n))]);
            for i in 0..n {
                b.prefix = format!("reservations.{}.", i);
                b.uint("offset", 12);
                b.uint("num_slots", 4);
                b.uint("timeout", 3);
                b.uint("increment", 11);
            }
            b.prefix.clear();
        }
        21 => {
            b.header();
            b.enumf("aid_type", 5, EnumKind::Navaid);
            b.text("name", 20, &[]);
            b.enumf("accuracy", 1, EnumKind::Accuracy);
            b.lon28("longitude");
            b.lat27("latitude");
            b.uint("dimension_to_bow", 9);
            b.uint("dimension_to_stern", 9);
            b.uint("dimension_to_port", 6);
            b.uint("dimension_to_starboard", 6);
            b.enumf("epfd_type", 4, EnumKind::Epfd);
            b.uint("utc_second", 6);
            b.flag("off_position");
            b.uint("regional_reserved", 8);
            b.flag("raim");
            b.flag("virtual_aid");
            b.flag("assigned_mode");
            b.spare(1);
        }
        24 => {
            b.header();
            let st = b.pos;
            let part = b.raw(2);
            match part {
                0 => {
                    if nbits < 160 {
                        return RefMsg::TooShort { mtype: 24, need_bytes: 20 };
                    }
                    b.push("message_part", st, 2, Hint::Structural, vec![(Prop::C12, Pat::NodeName("PartA")), (Prop::C14, Pat::NodeName("PartA"))]);
                    b.prefix = "message_part.".into();
                    b.text("vessel_name", 20, &[]);
                    b.prefix.clear();
                }
                1 => {
                    if nbits < 168 {
                        return RefMsg::TooShort { mtype: 24, need_bytes: 21 };
                    }
                    b.push("message_part", st, 2, Hint::Structural, vec![(Prop::C12, Pat::NodeName("PartB"))]);
                    b.prefix = "message_part.".into();
                    b.enumf("ship_type", 8, EnumKind::ShipType);
                    b.text("vendor_id", 3, &[]);
                    // bits 66..89 are reported twice: as 4 characters and as model code + serial
                    let save = b.pos;
                    b.text("model_serial", 4, &[]);
                    b.pos = save;
                    b.uint("unit_model_code", 4);
                    b.uint("serial_number", 20);
                    b.text("callsign", 7, &[]);
                    b.uint("dimension_to_bow", 9);
                    b.uint("dimension_to_stern", 9);
                    b.uint("dimension_to_port", 6);
                    b.uint("dimension_to_starboard", 6);
                    b.spare(6);
                    b.prefix.clear();
                }
                p => {
                    b.push("message_part", st, 2, Hint::Structural, vec![(Prop::C12, Pat::Render(vec![format!("Unknown({})", p)]))]);
                }
            }
            must_be_ok = bytes.len() <= 21;
        }
        27 => {
            b.header();
            b.enumf("position_accuracy", 1, EnumKind::Accuracy);
            b.flag("raim");
            b.enumf("navigation_status", 4, EnumKind::NavStatus);
            b.coord("longitude", 18, 108_600, 600.0, ULP_COORD_T27);
            b.coord("latitude", 17, 54_600, 600.0, ULP_COORD_T27);
            // speed in knots and course in degrees, undivided
            for (name, w, sent) in [("speed_over_ground", 6usize, 63u64), ("course_over_ground", 9, 511)] {
                let st = b.pos;
                let v = b.raw(w);
                let checks = if v == sent {
                    vec![(Prop::C11, Pat::IsNone)]
                } else {
                    vec![(Prop::C11, Pat::IsSome), (Prop::C10, Pat::SomeFloatIfPresent { exact: v as f64, ulps: 0 })]
                };
                b.push(name, st, w, Hint::Sentinels(vec![sent]), checks);
            }
            b.flag("gnss_position_status");
        }
        _ => unreachable!(),
    }
    RefMsg::Msg(RefDecoded { mtype: t, variant, must_be_ok, fields: b.out })
}

// ------------------------------------------------------------------------------------------
// comparison against an observed Debug tree

use super::dbgtree::Val;

pub fn ulp_f32(x: f64) -> f64 {
    let a = (x as f32).abs();
    if !a.is_finite() {
        return f64::INFINITY;
    }
    let next = f32::from_bits(a.to_bits() + 1);
    (next as f64) - (a as f64)
}

fn float_close(obs: f64, exact: f64, ulps: u32) -> bool {
    if ulps == 0 {
        return obs == exact;
    }
    (obs - exact).abs() <= ulps as f64 * ulp_f32(exact) * 1.000001
}

/// Does `v` (the value found at the field's path) satisfy the pattern?
pub fn pat_matches(p: &Pat, v: &Val) -> bool {
    match p {
        Pat::Int(i) => v.as_int() == Some(*i),
        Pat::Bool(b) => v.as_bool() == Some(*b),
        Pat::Str(s) => v.as_str() == Some(s.as_str()),
        Pat::Bytes(b) => v.as_bytes().as_deref() == Some(b.as_slice()),
        Pat::IsNone => v.is_none(),
        Pat::IsSome => v.some().is_some(),
        Pat::SomeInt(i) => v.some().and_then(|x| x.as_int()) == Some(*i),
        Pat::Float { exact, ulps } => match v {
            Val::Float(o, _) => float_close(*o, *exact, *ulps),
            Val::Int(o) => float_close(*o as f64, *exact, *ulps),
            _ => false,
        },
        Pat::SomeFloatIfPresent { exact, ulps } => {
            match v.some() {
                Some(Val::Float(o, _)) => float_close(*o, *exact, *ulps),
                Some(Val::Int(o)) => float_close(*o as f64, *exact, *ulps),
                _ => false,
            }
        }
        Pat::Render(alts) => {
            let r = format!("{:?}", v);
            alts.iter().any(|a| *a == r)
        }
        Pat::ListLen(n) => v.as_list().map(|l| l.len()) == Some(*n),
        Pat::NodeName(n) => v.name() == Some(*n),
    }
}

#[derive(Clone, Debug)]
pub struct Mismatch {
    pub path: String,
    pub start: usize,
    pub width: usize,
    pub expected: String,
    pub observed: String,
}

/// Compare every expectation owned by `prop` with the observed inner message struct.
pub fn compare(dec: &RefDecoded, inner: &Val, prop: Prop) -> Vec<Mismatch> {
    let mut out = Vec::new();
    for f in &dec.fields {
        for (owner, pat) in &f.checks {
            if *owner != prop {
                continue;
            }
            match inner.get(&f.path) {
                Some(v) => {
                    if !pat_matches(pat, v) {
                        out.push(Mismatch {
                            path: f.path.clone(),
                            start: f.start,
                            width: f.width,
                            expected: format!("{:?}", pat),
                            observed: crate::util::clip(&format!("{:?}", v), 200),
                        });
                    }
                }
                None => out.push(Mismatch {
                    path: f.path.clone(),
                    start: f.start,
                    width: f.width,
                    expected: format!("{:?}", pat),
                    observed: "<no such field in the decoded message>".into(),
                }),
            }
        }
    }
    out
}

/// number of expectations owned by `prop`
pub fn count_checks(dec: &RefDecoded, prop: Prop) -> usize {
    dec.fields.iter().map(|f| f.checks.iter().filter(|(p, _)| *p == prop).count()).sum()
}

// ------------------------------------------------------------------------------------------
// lengths worth visiting

/// byte lengths at which the layout of type `t` takes one of its specified shapes
pub fn standard_lengths(t: u8) -> Vec<usize> {
    match t {
        1..=4 | 9 | 11 | 18 => vec![21],
        5 => vec![53, 54],
        6 => vec![11, 12, 18, 40, 87, 126],
        7 | 13 => vec![9, 13, 17, 21],
        8 => vec![7, 8, 21, 60, 126],
        10 => vec![9],
        12 => vec![10, 12, 25, 60, 126],
        14 => vec![6, 8, 20, 70, 126],
        15 => vec![11, 12, 14, 15, 20, 21],
        16 => vec![12, 18],
        17 => vec![15, 16, 40, 102],
        19 => vec![39],
        20 => vec![9, 13, 17, 20],
        21 => vec![34, 45],
        24 => vec![20, 21],
        27 => vec![12],
        _ => vec![],
    }
}

// ------------------------------------------------------------------------------------------

pub fn selftest() -> Result<(), String> {
    let ok = |c: bool, w: &str| if c { Ok(()) } else { Err(format!("layout selftest: {}", w)) };
    // bit access round trip
    let mut buf = vec![0u8; 10];
    for (st, w, v) in [(0usize, 6usize, 27u64), (6, 2, 3), (8, 30, 0x2aaa_aaaa), (38, 28, 0x800_0001), (3, 1, 1)] {
        set_bits(&mut buf, st, w, v);
        ok(get_bits(&buf, st, w) == v, "set/get bits")?;
    }
    ok(signed(0x800_0000, 28) == -(1 << 27) && signed(0x7ff_ffff, 28) == (1 << 27) - 1 && signed(0xfff_ffff, 28) == -1, "sign extension")?;
    ok(trim_text("  AB@C @@  @@") == "AB@C @@", "text trimming order")?;
    ok(trim_text("@@@@") == "" && trim_text("   ") == "", "all padding")?;
    ok(sixbit_ascii(0) == '@' && sixbit_ascii(1) == 'A' && sixbit_ascii(31) == '_' && sixbit_ascii(32) == ' ' && sixbit_ascii(63) == '?', "6-bit table")?;
    ok(ship_type(30) == "Some(Fishing)" && ship_type(69) == "Some(PassengerNoAdditionalInformation)" && ship_type(84) == "Some(TankerHazardousCategoryD)" && ship_type(95) == "Some(OtherReserved(95))" && ship_type(100) == "None", "ship type table")?;

    // gpsd AIVDM.txt sample: !AIVDM,1,1,,B,177KQJ5000G?tO`K>RA1wUbN0TKH,0*5C
    // MMSI 477553000, status 5 (moored), lon -122.345832, lat 47.582833, cog 51.0, heading 181
    let bytes = super::armor::unarmor(b"177KQJ5000G?tO`K>RA1wUbN0TKH", 0).unwrap();
    match refdecode(&bytes) {
        RefMsg::Msg(d) => {
            ok(d.mtype == 1 && d.variant == "PositionReport" && d.must_be_ok, "gpsd sample: type")?;
            let find = |p: &str| d.fields.iter().find(|f| f.path == p).cloned();
            let f = find("mmsi").ok_or("no mmsi")?;
            ok(f.checks.iter().any(|(_, p)| *p == Pat::Int(477553000)), "gpsd sample: mmsi")?;
            let f = find("navigation_status").ok_or("no status")?;
            ok(f.checks.iter().any(|(_, p)| *p == Pat::Render(vec!["Some(Moored)".into()])), "gpsd sample: status")?;
            let f = find("longitude").ok_or("no lon")?;
            ok(f.checks.iter().any(|(_, p)| matches!(p, Pat::SomeFloatIfPresent { exact, .. } if (*exact - -122.345832).abs() < 1e-5)), "gpsd sample: longitude")?;
            let f = find("latitude").ok_or("no lat")?;
            ok(f.checks.iter().any(|(_, p)| matches!(p, Pat::SomeFloatIfPresent { exact, .. } if (*exact - 47.582833).abs() < 1e-5)), "gpsd sample: latitude")?;
            let f = find("true_heading").ok_or("no heading")?;
            ok(f.checks.iter().any(|(_, p)| *p == Pat::SomeInt(181)), "gpsd sample: heading")?;
            let f = find("course_over_ground").ok_or("no cog")?;
            ok(f.checks.iter().any(|(_, p)| matches!(p, Pat::SomeFloatIfPresent { exact, .. } if *exact == 51.0)), "gpsd sample: cog")?;
            // spans tile the 168 bits without gaps
            let mut covered = vec![false; 168];
            for f in &d.fields {
                if f.path == "radio_status" || f.path.starts_with("<sel") {
                    continue;
                }
                for i in f.start..f.start + f.width {
                    covered[i] = true;
                }
            }
            ok(covered.iter().all(|c| *c), "type 1 spans cover all 168 bits")?;
        }
        other => return Err(format!("layout selftest: gpsd sample decoded as {:?}", other)),
    }
    // every supported type: the spans of a maximal-length all-zero message stay inside the buffer
    for &t in SUPPORTED.iter() {
        for len in standard_lengths(t) {
            let mut m = vec![0u8; len];
            set_bits(&mut m, 0, 6, t as u64);
            match refdecode(&m) {
                RefMsg::Msg(d) => {
                    for f in &d.fields {
                        ok(f.start + f.width <= len * 8, &format!("type {} len {}: span of {} out of range", t, len, f.path))?;
                    }
                }
                RefMsg::TooShort { .. } if t == 24 => {}
                other => return Err(format!("layout selftest: type {} len {} -> {:?}", t, len, other)),
            }
        }
    }
    ok(matches!(refdecode(&[0u8; 30]), RefMsg::Unsupported(0)), "type 0 unsupported")?;
    ok(matches!(refdecode(&[22 << 2; 30]), RefMsg::Unsupported(22)), "type 22 unsupported")?;
    ok(matches!(refdecode(&[1 << 2; 20]), RefMsg::TooShort { .. }), "type 1 of 20 bytes too short")?;
    Ok(())
}
