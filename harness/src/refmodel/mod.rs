//! Reference models (oracles). None of this calls into the `ais` crate or uses nom.
pub mod armor;
pub mod build;
pub mod dbgtree;
pub mod layout;
pub mod nmea;
pub mod seq;

pub fn selftest() -> Result<(), String> {
    dbgtree::selftest()?;
    armor::selftest()?;
    nmea::selftest()?;
    seq::selftest()?;
    layout::selftest()?;
    Ok(())
}
