//! R5 — parser for derived-`Debug` output. Gives a `name -> value` tree so that decoded
//! messages can be read by public field *name*, the same way in all three build configurations.

use std::fmt;

#[derive(Clone, PartialEq)]
pub enum Val {
    Int(i128),
    /// a token with '.', 'e', inf or NaN; kept as the f32 it denotes (widened) and as text
    Float(f64, String),
    Bool(bool),
    Str(String),
    Char(char),
    /// `Name`, `Name(a, b)`, `Name { f: v }`; also `Some(x)` / `None`
    Node { name: String, args: Vec<Val>, fields: Vec<(String, Val)> },
    List(Vec<Val>),
    Tuple(Vec<Val>),
}

impl fmt::Debug for Val {
    fn fmt(&self, f: &mut fmt::Formatter<'_>) -> fmt::Result {
        match self {
            Val::Int(i) => write!(f, "{}", i),
            Val::Float(_, t) => write!(f, "{}", t),
            Val::Bool(b) => write!(f, "{}", b),
            Val::Str(s) => write!(f, "{:?}", s),
            Val::Char(c) => write!(f, "{:?}", c),
            Val::Node { name, args, fields } => {
                write!(f, "{}", name)?;
                if !args.is_empty() {
                    write!(f, "(")?;
                    for (i, a) in args.iter().enumerate() {
                        if i > 0 {
                            write!(f, ", ")?;
                        }
                        write!(f, "{:?}", a)?;
                    }
                    write!(f, ")")?;
                }
                if !fields.is_empty() {
                    write!(f, " {{ ")?;
                    for (i, (k, v)) in fields.iter().enumerate() {
                        if i > 0 {
                            write!(f, ", ")?;
                        }
                        write!(f, "{}: {:?}", k, v)?;
                    }
                    write!(f, " }}")?;
                }
                Ok(())
            }
            Val::List(v) => f.debug_list().entries(v.iter()).finish(),
            Val::Tuple(v) => {
                write!(f, "(")?;
                for (i, a) in v.iter().enumerate() {
                    if i > 0 {
                        write!(f, ", ")?;
                    }
                    write!(f, "{:?}", a)?;
                }
                write!(f, ")")
            }
        }
    }
}

impl Val {
    pub fn name(&self) -> Option<&str> {
        match self {
            Val::Node { name, .. } => Some(name),
            _ => None,
        }
    }
    pub fn is_none(&self) -> bool {
        matches!(self, Val::Node { name, args, fields } if name == "None" && args.is_empty() && fields.is_empty())
    }
    /// `Some(x)` -> x
    pub fn some(&self) -> Option<&Val> {
        match self {
            Val::Node { name, args, .. } if name == "Some" && args.len() == 1 => Some(&args[0]),
            _ => None,
        }
    }
    pub fn as_int(&self) -> Option<i128> {
        match self {
            Val::Int(i) => Some(*i),
            _ => None,
        }
    }
    pub fn as_f64(&self) -> Option<f64> {
        match self {
            Val::Float(v, _) => Some(*v),
            Val::Int(i) => Some(*i as f64),
            _ => None,
        }
    }
    pub fn as_bool(&self) -> Option<bool> {
        match self {
            Val::Bool(b) => Some(*b),
            _ => None,
        }
    }
    pub fn as_str(&self) -> Option<&str> {
        match self {
            Val::Str(s) => Some(s),
            _ => None,
        }
    }
    pub fn as_list(&self) -> Option<&[Val]> {
        match self {
            Val::List(v) => Some(v),
            _ => None,
        }
    }
    /// list of small integers -> bytes
    pub fn as_bytes(&self) -> Option<Vec<u8>> {
        let l = self.as_list()?;
        let mut out = Vec::with_capacity(l.len());
        for v in l {
            let i = v.as_int()?;
            if !(0..=255).contains(&i) {
                return None;
            }
            out.push(i as u8);
        }
        Some(out)
    }
    /// one step: struct field by name, or positional argument / list element by decimal index
    pub fn child(&self, seg: &str) -> Option<&Val> {
        if let Ok(idx) = seg.parse::<usize>() {
            return match self {
                Val::Node { args, .. } => args.get(idx),
                Val::List(v) | Val::Tuple(v) => v.get(idx),
                _ => None,
            };
        }
        match self {
            Val::Node { fields, .. } => fields.iter().find(|(k, _)| k == seg).map(|(_, v)| v),
            _ => None,
        }
    }
    /// dotted path, e.g. `stations.1.messages.0.slot_offset`
    pub fn get(&self, path: &str) -> Option<&Val> {
        let mut cur = self;
        if path.is_empty() {
            return Some(cur);
        }
        for seg in path.split('.') {
            cur = cur.child(seg)?;
        }
        Some(cur)
    }
}

pub fn parse(s: &str) -> Result<Val, String> {
    let mut p = P { b: s.as_bytes(), s, i: 0 };
    let v = p.value()?;
    p.ws();
    if p.i != p.b.len() {
        return Err(format!("trailing input at {}: {:?}", p.i, &s[p.i..s.len().min(p.i + 30)]));
    }
    Ok(v)
}

struct P<'a> {
    b: &'a [u8],
    s: &'a str,
    i: usize,
}

impl<'a> P<'a> {
    fn ws(&mut self) {
        while self.i < self.b.len() && (self.b[self.i] as char).is_ascii_whitespace() {
            self.i += 1;
        }
    }
    fn peek(&self) -> Option<u8> {
        self.b.get(self.i).copied()
    }
    fn eat(&mut self, c: u8) -> bool {
        self.ws();
        if self.peek() == Some(c) {
            self.i += 1;
            true
        } else {
            false
        }
    }
    fn err<T>(&self, what: &str) -> Result<T, String> {
        Err(format!(
            "{} at {}: {:?}",
            what,
            self.i,
            &self.s[self.i.min(self.s.len())..self.s.len().min(self.i + 30)]
        ))
    }

    fn value(&mut self) -> Result<Val, String> {
        self.ws();
        match self.peek() {
            None => self.err("unexpected end"),
            Some(b'"') => self.string().map(Val::Str),
            Some(b'\'') => self.character().map(Val::Char),
            Some(b'[') => {
                self.i += 1;
                let items = self.seq(b']')?;
                Ok(Val::List(items))
            }
            Some(b'(') => {
                self.i += 1;
                let items = self.seq(b')')?;
                Ok(Val::Tuple(items))
            }
            Some(c) if c == b'-' || c.is_ascii_digit() => self.number(),
            Some(c) if c.is_ascii_alphabetic() || c == b'_' => self.ident_value(),
            Some(_) => self.err("unexpected character"),
        }
    }

    fn seq(&mut self, close: u8) -> Result<Vec<Val>, String> {
        let mut items = Vec::new();
        loop {
            self.ws();
            if self.eat(close) {
                return Ok(items);
            }
            items.push(self.value()?);
            self.ws();
            if self.eat(b',') {
                continue;
            }
            if self.eat(close) {
                return Ok(items);
            }
            return self.err("expected ',' or close");
        }
    }

    fn number(&mut self) -> Result<Val, String> {
        let st = self.i;
        if self.peek() == Some(b'-') {
            self.i += 1;
        }
        // "-inf"
        if self.s[self.i..].starts_with("inf") {
            self.i += 3;
            let t = &self.s[st..self.i];
            let v = if t.starts_with('-') { f64::NEG_INFINITY } else { f64::INFINITY };
            return Ok(Val::Float(v, t.to_string()));
        }
        let mut is_float = false;
        while let Some(c) = self.peek() {
            if c.is_ascii_digit() {
                self.i += 1;
            } else if c == b'.' || c == b'e' || c == b'E' || ((c == b'-' || c == b'+') && matches!(self.b[self.i - 1], b'e' | b'E')) {
                is_float = true;
                self.i += 1;
            } else {
                break;
            }
        }
        let t = &self.s[st..self.i];
        if is_float {
            // all floats in this crate are f32: read the token as the f32 it denotes
            match t.parse::<f32>() {
                Ok(v) => Ok(Val::Float(v as f64, t.to_string())),
                Err(_) => self.err("bad float"),
            }
        } else {
            match t.parse::<i128>() {
                Ok(v) => Ok(Val::Int(v)),
                Err(_) => self.err("bad integer"),
            }
        }
    }

    fn ident_value(&mut self) -> Result<Val, String> {
        let st = self.i;
        while let Some(c) = self.peek() {
            if c.is_ascii_alphanumeric() || c == b'_' || c == b':' {
                self.i += 1;
            } else {
                break;
            }
        }
        let name = &self.s[st..self.i];
        match name {
            "true" => return Ok(Val::Bool(true)),
            "false" => return Ok(Val::Bool(false)),
            "NaN" => return Ok(Val::Float(f64::NAN, name.to_string())),
            "inf" => return Ok(Val::Float(f64::INFINITY, name.to_string())),
            _ => {}
        }
        let mut args = Vec::new();
        let mut fields = Vec::new();
        // no whitespace skipping before '(' — derived Debug prints `Name(`; but `Name {` has a space
        if self.peek() == Some(b'(') {
            self.i += 1;
            args = self.seq(b')')?;
        } else {
            let save = self.i;
            self.ws();
            if self.peek() == Some(b'{') {
                self.i += 1;
                loop {
                    self.ws();
                    if self.eat(b'}') {
                        break;
                    }
                    let ks = self.i;
                    while let Some(c) = self.peek() {
                        if c.is_ascii_alphanumeric() || c == b'_' {
                            self.i += 1;
                        } else {
                            break;
                        }
                    }
                    if ks == self.i {
                        // `..` of non-exhaustive Debug
                        if self.s[self.i..].starts_with("..") {
                            self.i += 2;
                            continue;
                        }
                        return self.err("expected field name");
                    }
                    let key = self.s[ks..self.i].to_string();
                    if !self.eat(b':') {
                        return self.err("expected ':'");
                    }
                    let v = self.value()?;
                    fields.push((key, v));
                    self.ws();
                    if self.eat(b',') {
                        continue;
                    }
                    if self.eat(b'}') {
                        break;
                    }
                    return self.err("expected ',' or '}'");
                }
            } else {
                self.i = save;
            }
        }
        Ok(Val::Node { name: name.to_string(), args, fields })
    }

    fn string(&mut self) -> Result<String, String> {
        // at opening quote
        self.i += 1;
        let mut out = String::new();
        loop {
            let rest = &self.s[self.i..];
            let mut it = rest.chars();
            match it.next() {
                None => return self.err("unterminated string"),
                Some('"') => {
                    self.i += 1;
                    return Ok(out);
                }
                Some('\\') => {
                    self.i += 1;
                    out.push(self.escape()?);
                }
                Some(c) => {
                    out.push(c);
                    self.i += c.len_utf8();
                }
            }
        }
    }

    fn character(&mut self) -> Result<char, String> {
        self.i += 1;
        let rest = &self.s[self.i..];
        let c = match rest.chars().next() {
            None => return self.err("unterminated char"),
            Some('\\') => {
                self.i += 1;
                self.escape()?
            }
            Some(c) => {
                self.i += c.len_utf8();
                c
            }
        };
        if self.peek() != Some(b'\'') {
            return self.err("expected closing quote");
        }
        self.i += 1;
        Ok(c)
    }

    /// after the backslash
    fn escape(&mut self) -> Result<char, String> {
        let c = match self.peek() {
            Some(c) => c,
            None => return self.err("dangling escape"),
        };
        self.i += 1;
        Ok(match c {
            b'n' => '\n',
            b'r' => '\r',
            b't' => '\t',
            b'0' => '\0',
            b'\\' => '\\',
            b'\'' => '\'',
            b'"' => '"',
            b'u' => {
                if self.peek() != Some(b'{') {
                    return self.err("bad \\u escape");
                }
                self.i += 1;
                let st = self.i;
                while self.peek().map(|c| c != b'}').unwrap_or(false) {
                    self.i += 1;
                }
                let hexs = &self.s[st..self.i];
                self.i += 1;
                match u32::from_str_radix(hexs, 16).ok().and_then(char::from_u32) {
                    Some(ch) => ch,
                    None => return self.err("bad code point"),
                }
            }
            b'x' => {
                let st = self.i;
                self.i += 2;
                match u32::from_str_radix(&self.s[st..self.i.min(self.s.len())], 16).ok().and_then(char::from_u32) {
                    Some(ch) => ch,
                    None => return self.err("bad \\x escape"),
                }
            }
            _ => return self.err("unknown escape"),
        })
    }
}

pub fn selftest() -> Result<(), String> {
    let s = r#"PositionReport(PositionReport { message_type: 1, mmsi: 123, navigation_status: Some(UnderWayUsingEngine), rate_of_turn: Some(RateOfTurn { raw: -5 }), speed_over_ground: Some(10.3), longitude: None, x: 1e-7, neg: -0.5, radio_status: Sotdma(SotdmaMessage { sync_state: Unknown(3), sub_message: UtcHourAndMinute(1, 2) }), name: "A \"B\"\u{7f}", data: [1, 2, 255], ch: 'B', e: [], t: true })"#;
    let v = parse(s)?;
    let chk = |c: bool, w: &str| if c { Ok(()) } else { Err(format!("dbgtree selftest: {}", w)) };
    chk(v.name() == Some("PositionReport"), "outer name")?;
    let m = v.get("0").ok_or("no inner")?;
    chk(m.get("mmsi").and_then(|x| x.as_int()) == Some(123), "mmsi")?;
    chk(m.get("navigation_status").and_then(|x| x.some()).and_then(|x| x.name()) == Some("UnderWayUsingEngine"), "status")?;
    chk(m.get("rate_of_turn.0.raw").and_then(|x| x.as_int()) == Some(-5), "rot")?;
    chk(m.get("speed_over_ground.0").and_then(|x| x.as_f64()) == Some(10.3f32 as f64), "sog")?;
    chk(m.get("longitude").map(|x| x.is_none()) == Some(true), "lon none")?;
    chk(m.get("x").and_then(|x| x.as_f64()) == Some(1e-7f32 as f64), "exp float")?;
    chk(m.get("neg").and_then(|x| x.as_f64()) == Some(-0.5), "neg float")?;
    chk(m.get("radio_status.0.sub_message.1").and_then(|x| x.as_int()) == Some(2), "submessage arg")?;
    chk(m.get("radio_status.0.sync_state.0").and_then(|x| x.as_int()) == Some(3), "unknown arg")?;
    chk(m.get("name").and_then(|x| x.as_str()) == Some("A \"B\"\u{7f}"), "string escapes")?;
    chk(m.get("data").and_then(|x| x.as_bytes()) == Some(vec![1, 2, 255]), "bytes")?;
    chk(m.get("ch") == Some(&Val::Char('B')), "char")?;
    chk(m.get("e").and_then(|x| x.as_list()).map(|l| l.len()) == Some(0), "empty list")?;
    chk(m.get("t").and_then(|x| x.as_bool()) == Some(true), "bool")?;
    // round trip of our own Debug
    let again = parse(&format!("{:?}", v))?;
    chk(again == v, "print/parse round trip")?;
    Ok(())
}
