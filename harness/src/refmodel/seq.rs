//! R2 — the reassembly model of C05 / C06 / C17, written from the property statements.
//!
//! State: the open group, if any: (sequence id, number of the last accepted fragment, payload so
//! far). Only *validly numbered* sentences (1 <= k <= n) are predicted; for anything else the
//! model answers `Unspecified` and forgets what it knew until the next first fragment.

#[derive(Clone, Debug, PartialEq, Eq)]
pub struct Group {
    pub id: Option<u8>,
    /// fragment count announced by the opening fragment
    pub n: u8,
    pub last_k: u8,
    pub payload: Vec<u8>,
}

#[derive(Clone, Debug, PartialEq, Eq)]
pub enum Pred {
    /// unfragmented sentence: Complete with its own payload; state untouched
    Single,
    /// fragment 1 of n >= 2: Incomplete; a new group is opened (any old one abandoned)
    Open,
    /// in-sequence non-final fragment: Incomplete with its own payload
    Continue,
    /// in-sequence final fragment: Complete carrying this concatenation; group closed
    Deliver(Vec<u8>),
    /// must be rejected with an error; state unchanged
    Reject(&'static str),
    /// no property pins the outcome (not validly numbered, fragment count differing from the
    /// group's, or model state unknown); the model follows what the implementation did
    Unspecified(&'static str),
}

#[derive(Clone, Debug, Default)]
pub struct Model {
    pub open: Option<Group>,
    /// set after an unspecified line was accepted: the model no longer knows the state
    pub unknown: bool,
}

/// what the implementation did with the line, as far as the model needs to know
#[derive(Clone, Copy, Debug, PartialEq, Eq)]
pub enum Seen {
    Complete,
    Incomplete,
    Rejected,
}

impl Model {
    pub fn new() -> Self {
        Self::default()
    }

    pub fn predict(&self, n: u8, k: u8, id: Option<u8>, payload: &[u8]) -> Pred {
        if n == 1 && k == 1 {
            return Pred::Single;
        }
        if k == 0 || n == 0 || k > n {
            return Pred::Unspecified("not validly numbered");
        }
        // here n >= 2 and 1 <= k <= n
        if k == 1 {
            return Pred::Open;
        }
        if self.unknown {
            return Pred::Unspecified("model state unknown after an unspecified line");
        }
        match &self.open {
            Some(g) if g.id == id && g.last_k == k - 1 => {
                if g.n != n {
                    return Pred::Unspecified("fragment count differs from the opening fragment's");
                }
                if k < n {
                    Pred::Continue
                } else {
                    let mut p = g.payload.clone();
                    p.extend_from_slice(payload);
                    Pred::Deliver(p)
                }
            }
            Some(g) if g.id != id => Pred::Reject("sequence id differs from the open group's"),
            Some(_) => Pred::Reject("not the direct successor of the last accepted fragment"),
            None => Pred::Reject("no open group"),
        }
    }

    /// Advance the model. `seen` is only consulted for `Unspecified` predictions.
    pub fn commit(&mut self, pred: &Pred, n: u8, k: u8, id: Option<u8>, payload: &[u8], seen: Seen) {
        match pred {
            Pred::Single | Pred::Reject(_) => {}
            Pred::Open => {
                self.unknown = false;
                self.open = Some(Group { id, n, last_k: 1, payload: payload.to_vec() });
            }
            Pred::Continue => {
                if let Some(g) = &mut self.open {
                    g.last_k = k;
                    g.payload.extend_from_slice(payload);
                }
            }
            Pred::Deliver(_) => {
                self.open = None;
            }
            Pred::Unspecified(_) => match seen {
                Seen::Rejected => {}
                Seen::Incomplete => {
                    // accepted as a continuation (or as something the model cannot name)
                    match &mut self.open {
                        Some(g) if !self.unknown && g.id == id && k >= 1 && g.last_k == k - 1 && k <= n => {
                            g.last_k = k;
                            g.payload.extend_from_slice(payload);
                        }
                        _ => {
                            self.unknown = true;
                            self.open = None;
                        }
                    }
                }
                Seen::Complete => {
                    match &self.open {
                        Some(g) if !self.unknown && g.id == id && k >= 1 && g.last_k == k - 1 && k <= n => {
                            self.open = None;
                        }
                        _ => {
                            self.unknown = true;
                            self.open = None;
                        }
                    }
                }
            },
        }
    }

    pub fn group_open(&self) -> bool {
        self.open.is_some()
    }
}

pub fn selftest() -> Result<(), String> {
    let ok = |c: bool, w: &str| if c { Ok(()) } else { Err(format!("seq selftest: {}", w)) };
    let mut m = Model::new();
    let step = |m: &mut Model, n: u8, k: u8, id: Option<u8>, p: &[u8]| {
        let pr = m.predict(n, k, id, p);
        let seen = match &pr {
            Pred::Single | Pred::Deliver(_) => Seen::Complete,
            Pred::Open | Pred::Continue => Seen::Incomplete,
            _ => Seen::Rejected,
        };
        m.commit(&pr, n, k, id, p, seen);
        pr
    };
    ok(step(&mut m, 2, 2, Some(7), b"x") == Pred::Reject("no open group"), "orphan")?;
    ok(step(&mut m, 3, 1, Some(7), b"a") == Pred::Open, "open")?;
    ok(step(&mut m, 1, 1, None, b"q") == Pred::Single, "single inside group")?;
    ok(matches!(step(&mut m, 3, 3, Some(7), b"c"), Pred::Reject(_)), "gap")?;
    ok(matches!(step(&mut m, 3, 2, Some(8), b"b"), Pred::Reject(_)), "id mismatch")?;
    ok(step(&mut m, 3, 2, Some(7), b"b") == Pred::Continue, "continue")?;
    ok(matches!(step(&mut m, 3, 2, Some(7), b"b"), Pred::Reject(_)), "duplicate")?;
    ok(step(&mut m, 3, 3, Some(7), b"c") == Pred::Deliver(b"abc".to_vec()), "deliver")?;
    ok(matches!(step(&mut m, 3, 3, Some(7), b"c"), Pred::Reject(_)), "stale after delivery")?;
    ok(matches!(step(&mut m, 4, 4, Some(7), b"d"), Pred::Reject(_)), "stale k = n+1 after delivery")?;
    ok(matches!(step(&mut m, 2, 0, None, b"d"), Pred::Unspecified(_)), "k = 0")?;
    Ok(())
}
