//! R6 — sentence builder: fields -> bytes with a correct (or deliberately chosen) checksum.

use crate::util::xor;

/// A decimal number and how it is spelled (leading zeros).
#[derive(Clone, Debug, PartialEq, Eq, Hash)]
pub struct Num {
    pub v: u32,
    pub zeros: u8,
}
impl Num {
    pub fn plain(v: u32) -> Self {
        Num { v, zeros: 0 }
    }
    pub fn render(&self, out: &mut Vec<u8>) {
        for _ in 0..self.zeros {
            out.push(b'0');
        }
        out.extend_from_slice(self.v.to_string().as_bytes());
    }
}

#[derive(Clone, Debug, PartialEq, Eq, Hash)]
pub enum Cks {
    /// the correct XOR of the body
    Correct,
    /// correct value XOR this non-zero delta (always wrong)
    Delta(u8),
    /// this value, whatever the body
    Value(u8),
}

#[derive(Clone, Debug, PartialEq, Eq, Hash)]
pub struct Spec {
    /// contents of the tag block (must not contain a backslash), if any
    pub tag: Option<Vec<u8>>,
    pub delim: u8,
    pub addr: [u8; 5],
    pub n: Num,
    pub k: Num,
    pub id: Option<Num>,
    pub channel: Vec<u8>,
    pub payload: Vec<u8>,
    pub fill: Num,
    pub cks: Cks,
    /// number of hex digits to print (2..=8, extra are leading zeros; 1 allowed when value < 16)
    pub cks_digits: u8,
    pub cks_lower: bool,
    /// bytes appended after the checksum digits (must not start with a hex digit)
    pub tail: Vec<u8>,
}

impl Spec {
    pub fn simple(n: u32, k: u32, id: Option<u32>, channel: &[u8], payload: &[u8], fill: u32) -> Spec {
        Spec {
            tag: None,
            delim: b'!',
            addr: *b"AIVDM",
            n: Num::plain(n),
            k: Num::plain(k),
            id: id.map(Num::plain),
            channel: channel.to_vec(),
            payload: payload.to_vec(),
            fill: Num::plain(fill),
            cks: Cks::Correct,
            cks_digits: 2,
            cks_lower: false,
            tail: Vec::new(),
        }
    }

    /// bytes strictly between the delimiter and the terminating '*'
    pub fn body(&self) -> Vec<u8> {
        let mut b = Vec::with_capacity(self.payload.len() + 32);
        b.extend_from_slice(&self.addr);
        b.push(b',');
        self.n.render(&mut b);
        b.push(b',');
        self.k.render(&mut b);
        b.push(b',');
        if let Some(id) = &self.id {
            id.render(&mut b);
        }
        b.push(b',');
        b.extend_from_slice(&self.channel);
        b.push(b',');
        b.extend_from_slice(&self.payload);
        b.push(b',');
        self.fill.render(&mut b);
        b
    }

    pub fn checksum_value(&self) -> u8 {
        let body = self.body();
        // XOR up to the first '*' of the body, should a field contain one (callers that care
        // exclude such fields)
        let end = body.iter().position(|&c| c == b'*').unwrap_or(body.len());
        let x = xor(&body[..end]);
        match self.cks {
            Cks::Correct => x,
            Cks::Delta(d) => x ^ d,
            Cks::Value(v) => v,
        }
    }

    pub fn render(&self) -> Vec<u8> {
        let body = self.body();
        let mut out = Vec::with_capacity(body.len() + 24);
        if let Some(t) = &self.tag {
            out.push(b'\\');
            out.extend_from_slice(t);
            out.push(b'\\');
        }
        out.push(self.delim);
        out.extend_from_slice(&body);
        out.push(b'*');
        let v = self.checksum_value();
        let digits = self.cks_digits.clamp(1, 8) as usize;
        let s = if digits == 1 && v < 16 {
            format!("{:X}", v)
        } else {
            format!("{:0width$X}", v, width = digits.max(2))
        };
        let s = if self.cks_lower { s.to_lowercase() } else { s };
        out.extend_from_slice(s.as_bytes());
        out.extend_from_slice(&self.tail);
        out
    }
}

/// `!AIVDM,n,k,id,ch,payload,fill*hh`
pub fn line(n: u32, k: u32, id: Option<u32>, channel: &[u8], payload: &[u8], fill: u32) -> Vec<u8> {
    Spec::simple(n, k, id, channel, payload, fill).render()
}

/// Overwrite the two characters after the first '*' following the delimiter with the
/// correct checksum (used by mutation generators and fuzz targets to get past the checksum wall).
/// Returns false if the line has no such place.
pub fn fix_checksum(line: &mut Vec<u8>) -> bool {
    let mut i = 0;
    if line.first() == Some(&b'\\') {
        match line[1..].iter().position(|&c| c == b'\\') {
            Some(j) => i = j + 2,
            None => return false,
        }
    }
    if i >= line.len() || (line[i] != b'!' && line[i] != b'$') {
        return false;
    }
    let bs = i + 1;
    let star = match line[bs..].iter().position(|&c| c == b'*') {
        Some(s) => bs + s,
        None => return false,
    };
    let x = xor(&line[bs..star]);
    let hexs = format!("{:02X}", x);
    // replace the run of hex digits after '*' (or insert two digits if none)
    let mut e = star + 1;
    while e < line.len() && line[e].is_ascii_hexdigit() {
        e += 1;
    }
    line.splice(star + 1..e, hexs.bytes());
    true
}

/// Cut `payload` into `cuts.len()+1` non-empty pieces at the given strictly increasing positions.
pub fn split_at(payload: &[u8], cuts: &[usize]) -> Vec<Vec<u8>> {
    let mut out = Vec::new();
    let mut prev = 0;
    for &c in cuts {
        out.push(payload[prev..c].to_vec());
        prev = c;
    }
    out.push(payload[prev..].to_vec());
    out
}
