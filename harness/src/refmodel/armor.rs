//! R3 — armouring / unarmouring through an explicit bit vector. Slow and obvious on purpose.

/// 6-bit value of an armouring character, or None if the byte is outside the alphabet
/// ('0'..='W' are 0..=39, '`'..='w' are 40..=63).
pub fn sixbit(c: u8) -> Option<u8> {
    match c {
        b'0'..=b'W' => Some(c - b'0'),
        b'`'..=b'w' => Some(c - b'`' + 40),
        _ => None,
    }
}

/// armouring character for a 6-bit value
pub fn armor_char(v: u8) -> u8 {
    assert!(v < 64);
    if v < 40 {
        b'0' + v
    } else {
        b'`' + (v - 40)
    }
}

pub const ALPHABET: [u8; 64] = {
    let mut a = [0u8; 64];
    let mut i = 0;
    while i < 64 {
        a[i] = if i < 40 { b'0' + i as u8 } else { b'`' + (i as u8 - 40) };
        i += 1;
    }
    a
};

/// Reference unarmouring: None if any byte is outside the alphabet; otherwise exactly
/// ceil(6n/8) bytes, MSB first, the last `fill` of the 6n bits and every pad bit zero.
pub fn unarmor(data: &[u8], fill: usize) -> Option<Vec<u8>> {
    let mut bits: Vec<bool> = Vec::with_capacity(data.len() * 6 + 8);
    for &c in data {
        let v = sixbit(c)?;
        for k in (0..6).rev() {
            bits.push((v >> k) & 1 == 1);
        }
    }
    let n = bits.len();
    for i in n.saturating_sub(fill)..n {
        bits[i] = false;
    }
    while bits.len() % 8 != 0 {
        bits.push(false);
    }
    Some(pack(&bits))
}

pub fn pack(bits: &[bool]) -> Vec<u8> {
    assert!(bits.len() % 8 == 0);
    bits.chunks(8)
        .map(|c| c.iter().fold(0u8, |a, &b| (a << 1) | b as u8))
        .collect()
}

/// Armour a bit string of `nbits` bits taken from `bytes` (MSB first). Returns the
/// characters and the fill count (0..=5) that pads the last character.
pub fn armor_bits(bytes: &[u8], nbits: usize) -> (Vec<u8>, u8) {
    assert!(nbits <= bytes.len() * 8);
    let nchars = (nbits + 5) / 6;
    let fill = (nchars * 6 - nbits) as u8;
    let mut out = Vec::with_capacity(nchars);
    for ci in 0..nchars {
        let mut v = 0u8;
        for k in 0..6 {
            let bi = ci * 6 + k;
            let bit = if bi < nbits { (bytes[bi / 8] >> (7 - bi % 8)) & 1 } else { 0 };
            v = (v << 1) | bit;
        }
        out.push(armor_char(v));
    }
    (out, fill)
}

/// Armour whole bytes the way a transmitter of a byte-aligned message would:
/// ceil(8n/6) characters, fill = pad bits.
pub fn armor_bytes(bytes: &[u8]) -> (Vec<u8>, u8) {
    armor_bits(bytes, bytes.len() * 8)
}

pub fn selftest() -> Result<(), String> {
    // vectors from the AIVDM protocol description (not from the crate's tests)
    if sixbit(b'0') != Some(0) || sixbit(b'W') != Some(39) || sixbit(b'`') != Some(40) || sixbit(b'w') != Some(63) {
        return Err("armor: alphabet edges".into());
    }
    for c in [b'/', b'X', b'_', b'x', 0, 255, b'[', b'\\'] {
        if sixbit(c).is_some() {
            return Err(format!("armor: {} must be outside the alphabet", c));
        }
    }
    for v in 0..64u8 {
        if sixbit(armor_char(v)) != Some(v) || ALPHABET[v as usize] != armor_char(v) {
            return Err("armor: char round trip".into());
        }
    }
    // '1' = 000001, '5' = 000101 -> 0000 0100 0101 (pad 0000)
    if unarmor(b"15", 0) != Some(vec![0b0000_0100, 0b0101_0000]) {
        return Err("armor: two chars".into());
    }
    if unarmor(b"w", 0) != Some(vec![0b1111_1100]) || unarmor(b"w", 2) != Some(vec![0b1111_0000]) {
        return Err("armor: fill".into());
    }
    if unarmor(b"ww", 5) != Some(vec![0b1111_1110, 0]) {
        return Err("armor: fill straddling".into());
    }
    if unarmor(b"", 3) != Some(vec![]) {
        return Err("armor: empty".into());
    }
    // round trip
    let bytes = [0xde, 0xad, 0xbe, 0xef, 0x01];
    for nbits in 0..=40 {
        let (chars, fill) = armor_bits(&bytes, nbits);
        let back = unarmor(&chars, fill as usize).unwrap();
        for i in 0..nbits {
            let a = (bytes[i / 8] >> (7 - i % 8)) & 1;
            let b = (back[i / 8] >> (7 - i % 8)) & 1;
            if a != b {
                return Err("armor: bit round trip".into());
            }
        }
    }
    Ok(())
}
