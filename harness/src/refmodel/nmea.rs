//! R1 — hand-written recogniser for the sentence shape stated in C08, and the checksum
//! quantities of C02. No nom, no code from the crate.

use crate::util::xor;

#[derive(Clone, Debug, PartialEq, Eq)]
pub struct Fields {
    /// true if the line starts with a (non-empty or empty) `\...\` block
    pub has_tag: bool,
    pub delim: u8,
    pub talker: [u8; 2],
    pub report: [u8; 3],
    pub num_fragments: u8,
    pub fragment_number: u8,
    pub message_id: Option<u8>,
    pub channel_field: Vec<u8>,
    pub payload: Vec<u8>,
    pub fill: u8,
    /// XOR of all bytes strictly between the delimiter and the first following '*'
    pub body_xor: u8,
    /// value of the (at most eight) hex digits after the terminating '*'
    pub transmitted: u8,
    /// a '*' occurs inside a field (before the terminating one): the statement's "first
    /// following '*'" and the grammar's terminator differ; excluded from C02/C07/C08 domains.
    pub star_in_field: bool,
    /// XOR of the bytes between the delimiter and the *terminating* '*' (equals body_xor
    /// unless star_in_field)
    pub body_xor_to_terminator: u8,
    pub empty_tag: bool,
}

impl Fields {
    pub fn checksum_ok(&self) -> bool {
        self.body_xor == self.transmitted
    }
    pub fn expected_talker(&self) -> &'static str {
        match &self.talker {
            b"AB" => "AB",
            b"AD" => "AD",
            b"AI" => "AI",
            b"AN" => "AN",
            b"AR" => "AR",
            b"AS" => "AS",
            b"AT" => "AT",
            b"AX" => "AX",
            b"BS" => "BS",
            b"SA" => "SA",
            _ => "Unknown",
        }
    }
    pub fn expected_report(&self) -> &'static str {
        match &self.report {
            b"VDM" => "VDM",
            b"VDO" => "VDO",
            _ => "Unknown",
        }
    }
    pub fn expected_channel(&self) -> Option<char> {
        self.channel_field.first().map(|&b| b as char)
    }
    /// validly numbered in the sense of C06: 1 <= k <= n
    pub fn validly_numbered(&self) -> bool {
        self.fragment_number >= 1 && self.fragment_number <= self.num_fragments
    }
}

#[derive(Clone, Debug, PartialEq, Eq)]
pub enum Shape {
    /// not of the stated shape: must be rejected with an error
    Rejected(&'static str),
    /// of the stated shape as far as form goes (the checksum comparison is in `Fields`)
    WellFormed(Fields),
}

impl Shape {
    pub fn fields(&self) -> Option<&Fields> {
        match self {
            Shape::WellFormed(f) => Some(f),
            _ => None,
        }
    }
}

/// decimal field at `p`: one or more ASCII digits, value <= 255. Returns (value, next index).
fn decimal(line: &[u8], mut p: usize) -> Option<(u8, usize)> {
    let st = p;
    let mut v: u32 = 0;
    while p < line.len() && line[p].is_ascii_digit() {
        v = (v * 10 + (line[p] - b'0') as u32).min(100_000);
        p += 1;
    }
    if p == st || v > 255 {
        None
    } else {
        Some((v as u8, p))
    }
}

fn find(line: &[u8], from: usize, c: u8) -> Option<usize> {
    line[from.min(line.len())..].iter().position(|&b| b == c).map(|i| i + from)
}

pub fn recognise(line: &[u8]) -> Shape {
    use Shape::Rejected as R;
    let mut i = 0usize;
    let mut has_tag = false;
    let mut empty_tag = false;
    if line.first() == Some(&b'\\') {
        match find(line, 1, b'\\') {
            None => return R("unterminated tag block"),
            Some(j) => {
                has_tag = true;
                empty_tag = j == 1;
                i = j + 1;
            }
        }
    }
    let delim = match line.get(i) {
        Some(&c) if c == b'!' || c == b'$' => c,
        Some(_) => return R("no start delimiter"),
        None => return R("empty"),
    };
    let body_start = i + 1;
    if body_start + 5 > line.len() {
        return R("address truncated");
    }
    let talker = [line[body_start], line[body_start + 1]];
    let report = [line[body_start + 2], line[body_start + 3], line[body_start + 4]];
    let mut p = body_start + 5;
    macro_rules! comma {
        ($why:expr) => {
            if line.get(p) != Some(&b',') {
                return R($why);
            }
            p += 1;
        };
    }
    comma!("no comma after address");
    let (num_fragments, np) = match decimal(line, p) {
        Some(x) => x,
        None => return R("bad fragment count"),
    };
    p = np;
    comma!("no comma after fragment count");
    let (fragment_number, np) = match decimal(line, p) {
        Some(x) => x,
        None => return R("bad fragment number"),
    };
    p = np;
    comma!("no comma after fragment number");
    let message_id = if line.get(p).map(|c| c.is_ascii_digit()).unwrap_or(false) {
        match decimal(line, p) {
            Some((v, np)) => {
                p = np;
                Some(v)
            }
            None => return R("sequence id out of range"),
        }
    } else {
        None
    };
    comma!("no comma after sequence id");
    let ch_end = match find(line, p, b',') {
        Some(e) => e,
        None => return R("no comma after channel"),
    };
    let channel_field = line[p..ch_end].to_vec();
    p = ch_end + 1;
    let pl_end = match find(line, p, b',') {
        Some(e) => e,
        None => return R("no comma after payload"),
    };
    let payload = line[p..pl_end].to_vec();
    if payload.is_empty() {
        return R("empty payload");
    }
    p = pl_end + 1;
    let (fill, np) = match decimal(line, p) {
        Some(x) => x,
        None => return R("bad fill count"),
    };
    if fill >= 6 {
        return R("fill count >= 6");
    }
    p = np;
    if line.get(p) != Some(&b'*') {
        return R("no '*' after fill count");
    }
    let term = p;
    p += 1;
    let hs = p;
    while p < line.len() && line[p].is_ascii_hexdigit() {
        p += 1;
    }
    if p == hs {
        return R("no checksum digits");
    }
    let digits = &line[hs..p.min(hs + 8)];
    let mut v: u64 = 0;
    for &d in digits {
        v = v * 16 + (d as char).to_digit(16).unwrap() as u64;
    }
    if v > 0xff {
        return R("checksum value > 0xFF");
    }
    let first_star = find(line, body_start, b'*').unwrap();
    Shape::WellFormed(Fields {
        has_tag,
        delim,
        talker,
        report,
        num_fragments,
        fragment_number,
        message_id,
        channel_field,
        payload,
        fill,
        body_xor: xor(&line[body_start..first_star]),
        transmitted: v as u8,
        star_in_field: first_star != term,
        body_xor_to_terminator: xor(&line[body_start..term]),
        empty_tag,
    })
}

pub fn selftest() -> Result<(), String> {
    let ok = |c: bool, w: &str| if c { Ok(()) } else { Err(format!("nmea selftest: {}", w)) };
    // README example of the protocol (gpsd AIVDM document)
    let l = b"!AIVDM,1,1,,B,177KQJ5000G?tO`K>RA1wUbN0TKH,0*5C";
    let f = recognise(l);
    let f = f.fields().ok_or("gpsd example must be well-formed")?;
    ok(f.checksum_ok(), "gpsd example checksum")?;
    ok(f.num_fragments == 1 && f.fragment_number == 1 && f.message_id.is_none(), "numbers")?;
    ok(f.expected_channel() == Some('B') && f.fill == 0 && f.payload == b"177KQJ5000G?tO`K>RA1wUbN0TKH", "fields")?;
    ok(f.expected_talker() == "AI" && f.expected_report() == "VDM", "address")?;
    let l2 = b"\\s:x,c:1*00\\$BSVDO,002,01,009,,w,5*3a\r\n";
    let f2 = recognise(l2);
    let f2 = f2.fields().ok_or("tagged example must be well-formed")?;
    ok(f2.has_tag && f2.delim == b'$' && f2.num_fragments == 2 && f2.fragment_number == 1, "tagged numbers")?;
    ok(f2.message_id == Some(9) && f2.channel_field.is_empty() && f2.fill == 5 && f2.transmitted == 0x3a, "tagged fields")?;
    ok(f2.expected_talker() == "BS" && f2.expected_report() == "VDO", "tagged address")?;
    for bad in [
        &b""[..],
        b"AIVDM,1,1,,A,1,0*00",
        b"!AIVDM,1,1,,A,,0*00",
        b"!AIVDM,1,1,,A,1,6*00",
        b"!AIVDM,256,1,,A,1,0*00",
        b"!AIVDM,1,1,256,A,1,0*00",
        b"!AIVDM,1,1,,A,1,0",
        b"!AIVDM,1,1,,A,1,0*",
        b"!AIVDM,1,1,,A,1,0*100",
        b"!AIVDM,1,1,,A,1,0*G1",
        b"!AIVDM,1,,A,1,0*00",
        b"!AIVDM,1,1,,A,1,1,0*00",
        b"\\s:1!AIVDM,1,1,,A,1,0*00",
        b" !AIVDM,1,1,,A,1,0*00",
        b"!AIVDM,1,1,,A,1, 0*00",
        b"!AIVDM,+1,1,,A,1,0*00",
        b"!AIVDM,1,1,,A,1,-0*00",
    ] {
        ok(matches!(recognise(bad), Shape::Rejected(_)), &format!("must reject {:?}", crate::util::esc(bad)))?;
    }
    let f3 = recognise(b"!AIVDM,1,1,,A,1,0*0000007A9zz");
    ok(f3.fields().map(|f| f.transmitted) == Some(0x7a), "first eight hex digits only")?;
    let f4 = recognise(b"!AIVDM,1,1,,A*z,15,0*16");
    ok(f4.fields().map(|f| f.star_in_field) == Some(true), "star in field flagged")?;
    Ok(())
}
