//! Typed access to decoded messages of the `std` configuration, for the exhaustive hot loops of
//! C10 and C16 (formatting a message costs ten times its decoding). Everything found here is
//! re-judged by the generic Debug-tree comparison before it is reported, so this module is a
//! fast filter, not a second oracle.

use ais_std::messages::radio_status::{RadioStatus, SubMessage, SyncState};
use ais_std::messages::AisMessage;

#[derive(Clone, Copy, Debug, PartialEq)]
pub struct Nav {
    pub lon: Option<f32>,
    pub lat: Option<f32>,
}

/// `None` = the library returned an error or panicked (the caller falls back to the generic check)
pub fn decode_nav(bytes: &[u8]) -> Option<Nav> {
    let r = crate::adapter::guarded(|| ais_std::messages::parse(bytes));
    let m = match r {
        Ok(Ok(m)) => m,
        _ => return None,
    };
    Some(match m {
        AisMessage::PositionReport(p) => Nav { lon: p.longitude, lat: p.latitude },
        AisMessage::BaseStationReport(p) => Nav { lon: p.longitude, lat: p.latitude },
        AisMessage::UtcDateResponse(p) => Nav { lon: p.longitude, lat: p.latitude },
        AisMessage::StandardAircraftPositionReport(p) => Nav { lon: p.longitude, lat: p.latitude },
        AisMessage::StandardClassBPositionReport(p) => Nav { lon: p.longitude, lat: p.latitude },
        AisMessage::ExtendedClassBPositionReport(p) => Nav { lon: p.longitude, lat: p.latitude },
        AisMessage::AidToNavigationReport(p) => Nav { lon: p.longitude, lat: p.latitude },
        AisMessage::DgnssBroadcastBinaryMessage(p) => Nav { lon: p.longitude, lat: p.latitude },
        AisMessage::LongRangeAisBroadcastMessage(p) => Nav { lon: p.longitude, lat: p.latitude },
        _ => return None,
    })
}

/// Canonical numeric form of a communication state:
/// SOTDMA: (0, sync, timeout, sub-kind, a, b) with sub-kind 0 offset / 1 utc(h=a, m=b) / 2 slot number / 3 received stations
/// ITDMA:  (1, sync, increment, slots, keep, 0)
pub type RadioTuple = (u8, u8, u32, u32, u32, u32);

fn sync_code(s: SyncState) -> u8 {
    match s {
        SyncState::UtcDirect => 0,
        SyncState::UtcIndirect => 1,
        SyncState::BaseStation => 2,
        SyncState::NumberOfReceivedStations => 3,
        SyncState::Unknown(c) => 100 + c,
    }
}

fn radio_tuple(r: &RadioStatus) -> RadioTuple {
    match r {
        RadioStatus::Sotdma(s) => {
            let (k, a, b) = match &s.sub_message {
                SubMessage::SlotOffset(o) => (0u32, *o as u16 as u32, 0u32),
                SubMessage::UtcHourAndMinute(h, m) => (1, *h as u32, *m as u32),
                SubMessage::SlotNumber(n) => (2, *n as u32, 0),
                SubMessage::ReceivedStations(n) => (3, *n as u32, 0),
            };
            (0, sync_code(s.sync_state), s.slot_timeout as u32, k, a, b)
        }
        RadioStatus::Itdma(i) => (1, sync_code(i.sync_state), i.slot_increment as u16 as u32, i.num_slots as u32, i.keep as u32, 0),
    }
}

pub fn decode_radio(bytes: &[u8]) -> Option<RadioTuple> {
    let r = crate::adapter::guarded(|| ais_std::messages::parse(bytes));
    let m = match r {
        Ok(Ok(m)) => m,
        _ => return None,
    };
    Some(match &m {
        AisMessage::PositionReport(p) => radio_tuple(&p.radio_status),
        AisMessage::BaseStationReport(p) => radio_tuple(&p.radio_status),
        AisMessage::UtcDateResponse(p) => radio_tuple(&p.radio_status),
        AisMessage::StandardAircraftPositionReport(p) => radio_tuple(&p.radio_status),
        AisMessage::StandardClassBPositionReport(p) => radio_tuple(&p.radio_status),
        _ => return None,
    })
}

/// The standard's reading of a 19-bit state value. For the UTC sub-message the minute is
/// returned as the full 7-bit field; the caller accepts the low six bits as well.
pub fn expected_radio(itdma: bool, state: u32) -> RadioTuple {
    let sync = ((state >> 17) & 3) as u8;
    if itdma {
        (1, sync, (state >> 4) & 0x1fff, (state >> 1) & 7, state & 1, 0)
    } else {
        let timeout = (state >> 14) & 7;
        let sub = state & 0x3fff;
        let (k, a, b) = match timeout {
            0 => (0, sub, 0),
            1 => (1, (sub >> 9) & 0x1f, (sub >> 2) & 0x7f),
            2 | 4 | 6 => (2, sub, 0),
            _ => (3, sub, 0),
        };
        (0, sync, timeout, k, a, b)
    }
}

pub fn radio_agrees(expected: RadioTuple, observed: RadioTuple) -> bool {
    if expected == observed {
        return true;
    }
    // UTC minute: the 7-bit field or its low six bits
    if expected.0 == 0 && expected.3 == 1 {
        let mut alt = expected;
        alt.5 &= 0x3f;
        return alt == observed;
    }
    false
}
