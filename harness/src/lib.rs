//! aisverif — property-based checks for squidpickles/ais (see /verif/DESIGN.md).
#![allow(dead_code)]

pub mod adapter;
pub mod engine;
pub mod fuzzglue;
pub mod gen;
pub mod outcome;
pub mod props;
pub mod refmodel;
pub mod typed;
pub mod util;
