//! Configuration-independent rendering of everything the library returns.
//! The three adapters (std / alloc / none) convert into these types; nothing here
//! refers to the `ais` crate.

use std::fmt;

#[derive(Clone, Debug, PartialEq, Eq, Hash)]
pub enum ErrCat {
    /// `Error::Nmea { msg }` — the text is kept for diagnostics only and is never compared.
    Nmea(String),
    Checksum { expected: u8, found: u8 },
}

impl ErrCat {
    pub fn is_checksum(&self) -> bool {
        matches!(self, ErrCat::Checksum { .. })
    }
    /// category only (text dropped) — what C18 compares
    pub fn category(&self) -> String {
        match self {
            ErrCat::Nmea(_) => "Nmea".to_string(),
            ErrCat::Checksum { expected, found } => format!("Checksum({:02x},{:02x})", expected, found),
        }
    }
}

/// All public fields of `AisSentence`, typed, plus the Debug rendering of the decoded message.
#[derive(Clone, Debug, PartialEq, Eq, Hash)]
pub struct Sent {
    pub talker: String,
    pub report: String,
    pub num_fragments: u8,
    pub fragment_number: u8,
    pub message_id: Option<u8>,
    pub channel: Option<char>,
    pub data: Vec<u8>,
    pub fill: u8,
    pub message_type: u8,
    /// `format!("{:?}", message)` when `message` is `Some`
    pub message: Option<String>,
}

#[derive(Clone, Debug, PartialEq, Eq, Hash)]
pub enum Outcome {
    Complete(Sent),
    Incomplete(Sent),
    Err(ErrCat),
    Panic(String),
}

impl Outcome {
    pub fn is_ok(&self) -> bool {
        matches!(self, Outcome::Complete(_) | Outcome::Incomplete(_))
    }
    pub fn is_err(&self) -> bool {
        matches!(self, Outcome::Err(_))
    }
    pub fn is_panic(&self) -> bool {
        matches!(self, Outcome::Panic(_))
    }
    pub fn sent(&self) -> Option<&Sent> {
        match self {
            Outcome::Complete(s) | Outcome::Incomplete(s) => Some(s),
            _ => None,
        }
    }
    /// Short human rendering for samples and replay output.
    pub fn brief(&self) -> String {
        match self {
            Outcome::Complete(s) => format!(
                "Complete(n={},k={},id={:?},ch={:?},fill={},type={},data={:?}{})",
                s.num_fragments,
                s.fragment_number,
                s.message_id,
                s.channel,
                s.fill,
                s.message_type,
                crate::util::esc(&s.data),
                match &s.message {
                    Some(m) => format!(",msg={}", crate::util::clip(m, 160)),
                    None => String::new(),
                }
            ),
            Outcome::Incomplete(s) => format!(
                "Incomplete(n={},k={},id={:?},data={:?})",
                s.num_fragments,
                s.fragment_number,
                s.message_id,
                crate::util::esc(&s.data)
            ),
            Outcome::Err(ErrCat::Nmea(m)) => format!("Err(Nmea:{})", crate::util::clip(m, 80)),
            Outcome::Err(ErrCat::Checksum { expected, found }) => {
                format!("Err(Checksum expected={:#04x} found={:#04x})", expected, found)
            }
            Outcome::Panic(m) => format!("PANIC({})", crate::util::clip(m, 200)),
        }
    }
    /// What C18 compares across configurations: full typed content for Ok, category for Err.
    pub fn canon(&self) -> String {
        match self {
            Outcome::Complete(s) => format!("C{:?}", s),
            Outcome::Incomplete(s) => format!("I{:?}", s),
            Outcome::Err(e) => format!("E{}", e.category()),
            Outcome::Panic(_) => "PANIC".to_string(),
        }
    }
}

/// Result of one of the two payload functions.
#[derive(Clone, Debug, PartialEq, Eq, Hash)]
pub enum PRes<T> {
    Ok(T),
    Err(ErrCat),
    Panic(String),
}

impl<T> PRes<T> {
    pub fn is_ok(&self) -> bool {
        matches!(self, PRes::Ok(_))
    }
    pub fn is_err(&self) -> bool {
        matches!(self, PRes::Err(_))
    }
    pub fn is_panic(&self) -> bool {
        matches!(self, PRes::Panic(_))
    }
    pub fn ok(&self) -> Option<&T> {
        match self {
            PRes::Ok(v) => Some(v),
            _ => None,
        }
    }
}

impl<T: fmt::Debug> PRes<T> {
    pub fn brief(&self) -> String {
        match self {
            PRes::Ok(v) => crate::util::clip(&format!("Ok({:?})", v), 400),
            PRes::Err(e) => format!("Err({})", e.category()),
            PRes::Panic(m) => format!("PANIC({})", crate::util::clip(m, 200)),
        }
    }
}
