//! C05 — in-order fragments reassemble to exactly the unfragmented message.

use crate::adapter::{configs, Config, STD};
use crate::engine::{Ctx, Input, Line, Rec, Tier, Verdict};
use crate::gen::sentence::inorder_group_history;
use crate::outcome::Outcome;
use crate::props::hist::{judge_history, render_steps, DECODE, FIELDS, SEQ};
use crate::refmodel::seq::Pred;

pub fn check(_sub: &str, cfg: &'static dyn Config, input: &Input, rec: &mut Rec) -> Verdict {
    let lines = match input {
        Input::History { lines } => lines,
        _ => crate::engine::infra_error("C05 expects a history"),
    };
    let (steps, fail) = judge_history(cfg, lines, SEQ | FIELDS | DECODE);
    rec.evals += lines.len() as u64;
    // classification
    let delivered = steps.iter().filter(|(_, i)| matches!(i.pred, Some(Pred::Deliver(_)))).count();
    let max_n = steps.iter().map(|(_, i)| i.n).max().unwrap_or(0);
    let frag_lines = steps.iter().filter(|(_, i)| i.gate_pass && i.n >= 2).count();
    if delivered > 0 {
        rec.class("group-delivered");
        if max_n >= 3 {
            rec.class("three-or-more-fragments");
        }
        if lines.len() > frag_lines {
            rec.class("noise-in-history");
        }
        if steps.iter().any(|(_, i)| matches!(i.pred, Some(Pred::Reject(_)))) {
            rec.class("out-of-sequence-fragment-in-history");
        }
    }
    rec.nontrivial = delivered > 0 && (max_n >= 3 || lines.len() > frag_lines || delivered > 1);
    if rec.want_note {
        rec.note = Some(render_steps(lines, &steps));
    }
    if let Some(f) = fail {
        return Verdict::fail(format!("line {}: {}", f.line_no, f.expected), f.observed);
    }
    // conversions: two more parsers in lock step, one per `From` impl
    let mut p_opt = cfg.new_parser();
    let mut p_res = cfg.new_parser();
    for (i, l) in lines.iter().enumerate() {
        let (o1, opt) = p_opt.parse_conv_opt(&l.bytes, l.decode);
        let (o2, res) = p_res.parse_conv_res(&l.bytes, l.decode);
        rec.evals += 2;
        if o1 != steps[i].0 || o2 != steps[i].0 {
            return Verdict::fail(format!("line {}: the same result from three parsers fed the same history: {}", i, steps[i].0.brief()), format!("{} / {}", o1.brief(), o2.brief()));
        }
        match &steps[i].0 {
            Outcome::Complete(s) => {
                if opt != Some(Some(s.clone())) {
                    return Verdict::fail(format!("line {}: Option::from(Complete(s)) == Some(s)", i), format!("{:?}", opt));
                }
                if res != Some(Ok(s.clone())) {
                    return Verdict::fail(format!("line {}: Result::from(Complete(s)) == Ok(s)", i), format!("{:?}", res));
                }
            }
            Outcome::Incomplete(_) => {
                if opt != Some(None) {
                    return Verdict::fail(format!("line {}: Option::from(Incomplete(_)) == None", i), format!("{:?}", opt));
                }
                if !matches!(res, Some(Err(_))) {
                    return Verdict::fail(format!("line {}: Result::from(Incomplete(_)) is an error", i), format!("{:?}", res));
                }
            }
            _ => {}
        }
    }
    Verdict::Pass
}

pub fn run(ctx: &mut Ctx) {
    ctx.rule = "a payload (reference-encoded message of any type, or random armouring characters, up to 380 characters) is split at arbitrary character boundaries into 2..9 fragments sharing one sequence id (absent, 0..9, multi-digit, with leading zeros) and presented in order after an arbitrary prior history (fresh, abandoned group, just-completed group, noise), with 0..2 unfragmented / bad-checksum / malformed / out-of-sequence lines between fragments; every line is judged against the reassembly model: non-final fragments Incomplete with their own fields, the last Complete with the exact concatenation and, when decoding, the same message as the unfragmented sentence; Option/Result conversions checked on lock-step parsers. Non-trivial = a group is delivered and (n >= 3, or other lines are present in the history, or several groups are delivered); distinct by the whole history.".into();
    ctx.assumptions = vec![
        "fields contain no '*' or ','".into(),
        "in the no-allocator build a fragment that would take the reassembled total above 384 bytes must be rejected and leave no trace".into(),
    ];
    ctx.replay_regressions(check);
    let n = ctx.tier.pick(60_000, 400_000);
    ctx.run_proptest("inorder-groups", &STD, n, inorder_group_history(), check);
    // a group kept waiting while 70 / 300 unfragmented sentences, bad-checksum lines or foreign fragments
    // pass: noise between fragments is the norm on a radio link, and there is no limit on how much of it
    for filler in 0..3usize {
        for count in [70usize, 300] {
            let mut lines = vec![Line::new(crate::refmodel::build::line(2, 1, Some(4), b"A", b"15", 0), false)];
            for i in 0..count {
                lines.push(match filler {
                    0 => Line::new(crate::refmodel::build::line(1, 1, None, b"B", b"177KQJ5000G?tO`K>RA1wUbN0TKH", 0), i % 2 == 0),
                    1 => Line::new(b"!AIVDM,1,1,,A,15,0*00".to_vec(), false),
                    _ => Line::new(crate::refmodel::build::line(2, 2, Some(5), b"A", b"5", 0), false),
                });
            }
            lines.push(Line::new(crate::refmodel::build::line(2, 2, Some(4), b"A", b"55", 0), false));
            for cfg in configs() {
                ctx.sweep_case("long-interleavings", cfg, &Input::History { lines: lines.clone() }, check);
            }
        }
    }
    // the no-allocator build around its 384-byte capacity: over-long fragments must be rejected and
    // leave the group as it was
    ctx.run_proptest("capacity-groups", &crate::adapter::NONE, n / 4, crate::props::c18::capacity_histories(), check);
    if ctx.tier == Tier::Thorough {
        for cfg in configs().into_iter().skip(1) {
            ctx.run_proptest("inorder-groups", cfg, n / 4, inorder_group_history(), check);
        }
    } else {
        for cfg in configs().into_iter().skip(1) {
            ctx.run_proptest("inorder-groups", cfg, n / 6, inorder_group_history(), check);
        }
    }
}
