//! C15 — binary application payloads are passed through bit-exactly.

use crate::adapter::{configs, Config, STD};
use crate::engine::{Ctx, Input, Rec, Verdict};
use crate::gen::payload::{payload_inputs, LenMode};
use crate::props::payload::check_input;
use crate::refmodel::armor;
use crate::refmodel::layout::{self, set_bits, Pat, Prop, RefMsg};
use crate::util::Mix;

/// non-trivial: at least one byte of binary data follows the header
fn nontrivial(r: &RefMsg, _bytes: &[u8]) -> bool {
    match r {
        RefMsg::Msg(d) => d.fields.iter().any(|f| f.checks.iter().any(|(p, pat)| *p == Prop::C15 && matches!(pat, Pat::Bytes(b) if !b.is_empty()))),
        _ => false,
    }
}

pub fn check(_sub: &str, cfg: &'static dyn Config, input: &Input, rec: &mut Rec) -> Verdict {
    check_input(Prop::C15, cfg, input, nontrivial, rec)
}

pub fn run(ctx: &mut Ctx) {
    ctx.rule = "types 6, 8 and 17 at every payload byte length from the bare header to the protocol maximum (and a few beyond) with random header values and contents, directly and through armouring with every fill count; data must equal the bytes after the 11 / 7 / 15 header bytes exactly (length and content), and DAC, FID and the DGNSS header integers must equal the bits at their positions. Non-trivial = at least one data byte; distinct by payload bytes.".into();
    ctx.assumptions = vec!["all three builds; more than 119 data bytes is excluded in the no-allocator build (C18 decides those)".into()];
    ctx.replay_regressions(check);
    let mut mix = Mix::new(ctx.seed, 15);
    let reps = ctx.tier.pick(12, 400);
    for &(t, hdr) in [(6u8, 11usize), (8, 7), (17, 15)].iter() {
        let max = layout::bytes_after_armor(layout::length_limits(t).unwrap().1);
        for len in hdr..=max + 6 {
            for rep in 0..reps {
                let mut b = match rep {
                    0 => vec![0u8; len],
                    1 => vec![0xffu8; len],
                    2 => (0..len).map(|i| i as u8).collect(),
                    _ => mix.bytes(len),
                };
                set_bits(&mut b, 0, 6, t as u64);
                if ctx.sub_failed("every-length") {
                    return;
                }
                let input = Input::Payload { bytes: b };
                for cfg in configs() {
                    ctx.sweep_case("every-length", cfg, &input, check);
                }
            }
        }
    }
    ctx.mark_exhaustive("every-length", "types 6, 8, 17 x every byte length from the header to max+6 x {zeros, ones, counting pattern, random}");

    let reps = ctx.tier.pick(1, 10);
    for &(t, hdr_bits) in [(6u8, 88usize), (8, 56), (17, 120)].iter() {
        let max_chars = ((layout::length_limits(t).unwrap().1 + 5) / 6).min(380);
        for nchars in (hdr_bits + 5) / 6..=max_chars {
            for fill in 0..6u8 {
                for _ in 0..reps {
                    let raw = mix.bytes(nchars);
                    let mut chars: Vec<u8> = raw.iter().map(|b| armor::ALPHABET[(*b & 63) as usize]).collect();
                    chars[0] = armor::armor_char(t);
                    if ctx.sub_failed("every-char-length-and-fill") {
                        return;
                    }
                    let input = Input::SentPayload { chars, fill, cuts: vec![] };
                    for cfg in configs() {
                        ctx.sweep_case("every-char-length-and-fill", cfg, &input, check);
                    }
                }
            }
        }
    }
    ctx.mark_exhaustive("every-char-length-and-fill", "types 6, 8, 17 x every payload length in characters x fill 0..=5, random contents, through the sentence path");

    let n = ctx.tier.pick(120_000, 600_000);
    ctx.run_proptest("random-any-length", &STD, n, payload_inputs(vec![6, 8, 17], LenMode::Any, Prop::C15, 6, 0.25), check);
    // the same generated payloads, a tenth of them through the sentence path (fragments included), on the
    // alloc and no-allocator builds
    for cfg in crate::adapter::configs().into_iter().skip(1) {
        let n_other = ctx.tier.pick(20_000, 200_000);
        ctx.run_proptest("random-assignments", cfg, n_other, crate::gen::payload::payload_inputs(vec![6, 8, 17], crate::gen::payload::LenMode::Standard, Prop::C15, 8, 0.15), check);
    }
    // every field inverted as a whole and bit by bit against all-zero and all-one backgrounds
    for &t in crate::refmodel::layout::SUPPORTED.iter() {
        for len in crate::refmodel::layout::standard_lengths(t) {
            let mut inputs = Vec::new();
            crate::gen::payload::field_sweep(t, len, |b| inputs.push(b));
            for b in inputs {
                ctx.sweep_case("field-sweep", &crate::adapter::STD, &Input::Payload { bytes: b }, check);
            }
        }
    }
    ctx.mark_exhaustive("field-sweep", "every field of every specified shape x {inverted whole, each single bit inverted} x {all-zero, all-one background}");
    // every pair of fields at their special values (see gen::payload::pairwise_specials)
    {
        let mut mix = crate::util::Mix::new(ctx.seed, 0xa11);
        let reps = ctx.tier.pick(1, 6);
        for (t, len, part) in crate::gen::payload::pairwise_shapes() {
            if ![6u8, 8, 17].contains(&t) { continue; }
            for base in 0..4u8 {
                crate::gen::payload::pairwise_specials(t, len, part, if base == 0 { reps } else { 1 }, base, &mut mix, |b| {
                    ctx.sweep_case("pairwise-special-values", &crate::adapter::STD, &Input::Payload { bytes: b }, check);
                });
            }
        }
        ctx.mark_exhaustive("pairwise-special-values", "every pair of fields of every layout (longest specified shape, and the shortest for the variable ones) x each field's special values (0, 1, max, max-1, 'not available' codes, MMSI station classes, time-stamp codes 60..63; all values of fields up to 3 bits), against three backgrounds: the other bits random, all zero, and 'everything unavailable'");
    }
    // decoding after an arbitrary history, in an unfragmented sentence or in a closing line without a group
    {
        let n_after = ctx.tier.pick(24_000, 300_000);
        ctx.run_proptest("after-history", &crate::adapter::STD, n_after, crate::gen::payload::payload_inputs_after(vec![6, 8, 17], Prop::C15), check);
    }
}
