//! C13 — text fields are the 6-bit ASCII decoding with padding stripped.

use crate::adapter::{configs, Config, STD};
use crate::engine::{Ctx, Input, Rec, Verdict};
use crate::gen::payload::{payload_inputs, text_code, LenMode};
use crate::props::payload::check_input;
use crate::refmodel::layout::{self, get_bits, refdecode, set_bits, Hint, Prop, RefMsg};
use proptest::prelude::*;

const TEXT_TYPES: [u8; 6] = [5, 12, 14, 19, 21, 24];

/// non-trivial: a text field contains a character from the second half of the table, an
/// interior '@' or space, or is all padding
fn nontrivial(r: &RefMsg, bytes: &[u8]) -> bool {
    match r {
        RefMsg::Msg(d) => d.fields.iter().any(|f| match f.hint {
            Hint::Text(n) if n > 0 => {
                let codes: Vec<u64> = (0..n).map(|i| get_bits(bytes, f.start + 6 * i, 6)).collect();
                let second_half = codes.iter().any(|c| *c > 32);
                let all_pad = codes.iter().all(|c| *c == 0 || *c == 32);
                let interior = n >= 3 && (1..n - 1).any(|i| (codes[i] == 0 || codes[i] == 32) && codes[..i].iter().any(|c| *c != 0 && *c != 32) && codes[i + 1..].iter().any(|c| *c != 0 && *c != 32));
                second_half || all_pad || interior
            }
            _ => false,
        }),
        _ => false,
    }
}

pub fn check(_sub: &str, cfg: &'static dyn Config, input: &Input, rec: &mut Rec) -> Verdict {
    check_input(Prop::C13, cfg, input, nontrivial, rec)
}

/// every text span of the message filled from one stream of 6-bit codes
fn texts_filled() -> impl Strategy<Value = Input> {
    (any::<u16>(), any::<u16>(), proptest::collection::vec(any::<u8>(), 40), proptest::collection::vec(text_code(), 1..170), any::<u8>()).prop_map(|(tsel, lsel, noise, codes, part)| {
        let t = TEXT_TYPES[(tsel as usize * TEXT_TYPES.len()) >> 16];
        let lens = layout::standard_lengths(t);
        let len = lens[(lsel as usize * lens.len()) >> 16];
        let mut b: Vec<u8> = (0..len).map(|i| noise[i % noise.len()]).collect();
        set_bits(&mut b, 0, 6, t as u64);
        if t == 24 {
            set_bits(&mut b, 38, 2, (part & 1) as u64);
        }
        if let RefMsg::Msg(d) = refdecode(&b) {
            let mut k = 0usize;
            for f in d.fields.iter() {
                if let Hint::Text(n) = f.hint {
                    for i in 0..n {
                        set_bits(&mut b, f.start + 6 * i, 6, codes[k % codes.len()] as u64);
                        k += 1;
                    }
                }
            }
        }
        Input::Payload { bytes: b }
    })
}

pub fn run(ctx: &mut Ctx) {
    ctx.rule = "every text field (call sign 7, names 20, destination 20 and truncated, vendor id 3, model/serial 4, safety text 1..156/161 characters) filled from a biased stream of 6-bit codes (plenty of '@', space and the second half of the table '!'..'?'), each field at its own bit alignment; the reported string must equal the reference decoding with leading spaces, then trailing '@', then trailing spaces removed. Non-trivial = a field has a second-half character, an interior '@'/space, or is all padding; distinct by payload bytes.".into();
    ctx.assumptions = vec!["texts over 20 characters are excluded in the no-allocator build (C18 decides those)".into()];
    ctx.replay_regressions(check);

    // deterministic: each of the 64 codes at each character position of each text field
    for &t in TEXT_TYPES.iter() {
        for len in layout::standard_lengths(t) {
            for part in 0..2u64 {
                if t != 24 && part == 1 {
                    continue;
                }
                let mut b0 = vec![0u8; len];
                set_bits(&mut b0, 0, 6, t as u64);
                if t == 24 {
                    set_bits(&mut b0, 38, 2, part);
                }
                let fields = match refdecode(&b0) {
                    RefMsg::Msg(d) => d.fields,
                    _ => continue,
                };
                for f in fields.iter() {
                    if let Hint::Text(n) = f.hint {
                        let positions: Vec<usize> = if n <= 20 { (0..n).collect() } else { vec![0, 1, n / 2, n - 2, n - 1] };
                        for pos in positions {
                            for code in 0..64u64 {
                                for bg in [0u64, 1, 32, 63] {
                                    let mut b = b0.clone();
                                    for i in 0..n {
                                        set_bits(&mut b, f.start + 6 * i, 6, bg);
                                    }
                                    set_bits(&mut b, f.start + 6 * pos, 6, code);
                                    if ctx.sub_failed("code-by-position") {
                                        return;
                                    }
                                    let input = Input::Payload { bytes: b };
                                    for cfg in configs() {
                                        ctx.sweep_case("code-by-position", cfg, &input, check);
                                    }
                                }
                            }
                        }
                    }
                }
            }
        }
    }
    ctx.mark_exhaustive("code-by-position", "each of the 64 six-bit codes at each character position of each text field x backgrounds of '@', 'A', space, '?'");

    let n = ctx.tier.pick(96_000, 1_500_000);
    ctx.run_proptest("texts-filled", &STD, n, texts_filled(), check);
    let n = ctx.tier.pick(48_000, 500_000);
    ctx.run_proptest("random-assignments", &STD, n, payload_inputs(TEXT_TYPES.to_vec(), LenMode::Standard, Prop::C13, 8, 0.15), check);
    ctx.run_proptest("random-any-length", &STD, n, payload_inputs(vec![5, 12, 14], LenMode::Any, Prop::C13, 6, 0.15), check);
    for cfg in configs().into_iter().skip(1) {
        ctx.run_proptest("texts-filled", cfg, n, texts_filled(), check);
    }
    // every field inverted as a whole and bit by bit against all-zero and all-one backgrounds
    for &t in crate::refmodel::layout::SUPPORTED.iter() {
        for len in crate::refmodel::layout::standard_lengths(t) {
            let mut inputs = Vec::new();
            crate::gen::payload::field_sweep(t, len, |b| inputs.push(b));
            for b in inputs {
                ctx.sweep_case("field-sweep", &crate::adapter::STD, &Input::Payload { bytes: b }, check);
            }
        }
    }
    ctx.mark_exhaustive("field-sweep", "every field of every specified shape x {inverted whole, each single bit inverted} x {all-zero, all-one background}");
    // every pair of fields at their special values (see gen::payload::pairwise_specials)
    {
        let mut mix = crate::util::Mix::new(ctx.seed, 0xa11);
        let reps = ctx.tier.pick(1, 6);
        for (t, len, part) in crate::gen::payload::pairwise_shapes() {
            if !TEXT_TYPES.contains(&t) { continue; }
            for base in 0..4u8 {
                crate::gen::payload::pairwise_specials(t, len, part, if base == 0 { reps } else { 1 }, base, &mut mix, |b| {
                    ctx.sweep_case("pairwise-special-values", &crate::adapter::STD, &Input::Payload { bytes: b }, check);
                });
            }
        }
        ctx.mark_exhaustive("pairwise-special-values", "every pair of fields of every layout (longest specified shape, and the shortest for the variable ones) x each field's special values (0, 1, max, max-1, 'not available' codes, MMSI station classes, time-stamp codes 60..63; all values of fields up to 3 bits), against three backgrounds: the other bits random, all zero, and 'everything unavailable'");
    }
    // decoding after an arbitrary history, in an unfragmented sentence or in a closing line without a group
    {
        let n_after = ctx.tier.pick(24_000, 300_000);
        ctx.run_proptest("after-history", &crate::adapter::STD, n_after, crate::gen::payload::payload_inputs_after(TEXT_TYPES.to_vec(), Prop::C13), check);
    }
}
