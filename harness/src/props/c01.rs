//! C01 — parsing is total: no panic, abort or hang on any input or history, in all three
//! build configurations.

use crate::adapter::{configs, Config};
use crate::engine::{Ctx, Input, Line, Rec, Verdict};
use crate::gen::payload::{payload_inputs, LenMode};
use crate::gen::sentence::{address, adversarial_events, channel, num, payload_field, render_ev, small_num, tag_block, tail};
use crate::outcome::{Outcome, PRes};
use crate::props::hist::{gate, Gate};
use crate::refmodel::armor::ALPHABET;
use crate::refmodel::build::{self, Cks, Num, Spec};
use crate::refmodel::layout::{set_bits, Prop, SUPPORTED};
use crate::util::{esc, Mix};
use proptest::prelude::*;

pub fn check(_sub: &str, cfg: &'static dyn Config, input: &Input, rec: &mut Rec) -> Verdict {
    if cfg.name() == "std" {
        crate::engine::collect(input);
    }
    match input {
        Input::History { lines } => {
            let mut p = cfg.new_parser();
            for (i, l) in lines.iter().enumerate() {
                let out = p.parse(&l.bytes, l.decode);
                rec.evals += 1;
                if !rec.nontrivial && matches!(gate(&l.bytes), Gate::Pass(_) | Gate::StarInField(_)) {
                    rec.nontrivial = true;
                }
                if let Outcome::Panic(m) = out {
                    if rec.want_note {
                        rec.note = Some(format!("line {} panics", i));
                    }
                    return Verdict::fail(
                        format!("line {} ({:?}, decode = {}) returns a result or an error value; parser state before it: {}", i, crate::util::clip(&esc(&l.bytes), 120), l.decode, "see replay"),
                        format!("panic: {}", m),
                    );
                }
            }
            if rec.want_note {
                rec.note = Some(format!("{} line(s), none panicked; last: {:?}", lines.len(), lines.last().map(|l| crate::util::clip(&esc(&l.bytes), 100))));
            }
            Verdict::Pass
        }
        Input::Payload { bytes } => {
            rec.evals += 1;
            rec.nontrivial = !bytes.is_empty();
            match cfg.parse_msg_ok(bytes) {
                PRes::Panic(m) => Verdict::fail("messages::parse returns a message or an error value", format!("panic: {}", m)),
                r => {
                    if rec.want_note {
                        rec.note = Some(format!("messages::parse of {} byte(s) -> {}", bytes.len(), if r.is_ok() { "Ok" } else { "Err" }));
                    }
                    Verdict::Pass
                }
            }
        }
        Input::Unarmor { data, fill } => {
            rec.evals += 1;
            rec.nontrivial = !data.is_empty();
            match cfg.unarmor(data, *fill) {
                PRes::Panic(m) => Verdict::fail(format!("messages::unarmor({:?}, {}) returns bytes or an error value", crate::util::clip(&esc(data), 80), fill), format!("panic: {}", m)),
                r => {
                    if rec.want_note {
                        rec.note = Some(format!("unarmor of {} byte(s), fill {} -> {}", data.len(), fill, if r.is_ok() { "Ok" } else { "Err" }));
                    }
                    Verdict::Pass
                }
            }
        }
        Input::SentPayload { chars, fill, cuts } => {
            // through the sentence path, decode on
            let mut p = cfg.new_parser();
            let pieces = if cuts.is_empty() { vec![chars.clone()] } else { build::split_at(chars, cuts) };
            let n = pieces.len() as u32;
            for (i, piece) in pieces.iter().enumerate() {
                let k = i as u32 + 1;
                let l = build::line(n, k, if n > 1 { Some(1) } else { None }, b"A", piece, if k == n { *fill as u32 } else { 0 });
                rec.evals += 1;
                rec.nontrivial = true;
                if let Outcome::Panic(m) = p.parse(&l, true) {
                    return Verdict::fail(format!("fragment {} of {} returns a result or an error value", k, n), format!("panic: {}", m));
                }
            }
            Verdict::Pass
        }
        Input::Stream { bytes } => {
            // through the command-line tool, which is built in the dev profile (no optimisation, so no
            // tail-call elimination: unbounded recursion shows as a stack overflow here)
            rec.evals += 1;
            rec.nontrivial = true;
            if !std::path::Path::new(crate::props::c20::CLI).exists() {
                return Verdict::Excluded("the command-line tool is not built");
            }
            let r = crate::props::c20::run_cli(bytes);
            if r.hung {
                // the library (C01) or the tool's own loop (C20)? not decidable from here
                crate::engine::infra_error("the dev-profile tool did not finish a huge-input stream within 60 s / 180 s; inconclusive for C01 (C20 judges the tool)");
            }
            if r.signal || matches!(r.status, Some(101) | Some(134) | Some(139)) {
                let tail = String::from_utf8_lossy(&r.stderr);
                return Verdict::fail(
                    "the dev-profile build of the library (inside aisparser) returns a result or an error for every line",
                    format!("the process died ({}); stderr tail: {}", match r.status { Some(c) => format!("exit code {}", c), None => "killed by a signal: stack overflow or abort".into() }, crate::util::clip(&tail[tail.len().saturating_sub(300)..], 300)),
                );
            }
            if rec.want_note {
                rec.note = Some(format!("{} bytes through the dev-profile tool: exit {:?}", bytes.len(), r.status));
            }
            Verdict::Pass
        }
        _ => crate::engine::infra_error("C01: unexpected input kind"),
    }
}

/// numbering values that matter for the sequencing arithmetic
fn weird_num() -> impl Strategy<Value = Num> {
    prop_oneof![
        6 => prop::sample::select(vec![0u32, 1, 2, 3, 9, 10, 255]).prop_map(Num::plain),
        2 => small_num().prop_map(Num::plain),
        1 => num(255),
    ]
}

/// a structured line: any numbering, any id, any payload (including the capacity edges),
/// optional textual damage with or without a re-fixed checksum
fn structured_line() -> impl Strategy<Value = Line> {
    let id = prop_oneof![
        3 => Just(None),
        5 => prop::sample::select(vec![0u32, 1, 9, 10, 99, 255]).prop_map(|v| Some(Num::plain(v))),
        1 => num(255).prop_map(Some),
    ];
    let payload = prop_oneof![
        8 => payload_field(400),
        1 => (prop::sample::select(vec![383usize, 384, 385, 386, 511, 512, 513, 514, 600]), any::<u8>(), 0u8..6).prop_map(|(n, s, f)| ((0..n).map(|i| ALPHABET[(i * 7 + s as usize) & 63]).collect::<Vec<u8>>(), f)),
    ];
    let damage = prop_oneof![
        6 => Just(None),
        2 => (any::<u16>(), 0u8..3, any::<u8>(), any::<bool>()).prop_map(Some),
    ];
    (tag_block(), any::<bool>(), address(), weird_num(), weird_num(), id, channel(), payload, tail(), prop::bool::weighted(0.9), any::<bool>(), damage).prop_map(
        |(tag, dollar, addr, n, k, id, channel, (payload, fill), tail, good_cks, decode, damage)| {
            let s = Spec {
                tag,
                delim: if dollar { b'$' } else { b'!' },
                addr,
                n,
                k,
                id,
                channel,
                payload,
                fill: Num::plain(fill as u32),
                cks: if good_cks { Cks::Correct } else { Cks::Delta(0x20) },
                cks_digits: 2,
                cks_lower: false,
                tail,
            };
            let mut b = s.render();
            if let Some((pos, kind, byte, fix)) = damage {
                if !b.is_empty() {
                    let i = (pos as usize * b.len()) >> 16;
                    match kind {
                        0 => {
                            b.remove(i);
                        }
                        1 => b.insert(i, byte),
                        _ => b[i] = byte,
                    }
                    if fix {
                        build::fix_checksum(&mut b);
                    }
                }
            }
            Line::new(b, decode)
        },
    )
}

/// layer 4: every short history over fragments of every numbering kind, including the ones that
/// are not validly numbered (k = 0, n = 0, k > n)
fn state_sweep(ctx: &mut Ctx, cfg: &'static dyn Config, max_len: usize) {
    let nks: [(u32, u32); 12] = [(2, 1), (2, 2), (3, 1), (3, 2), (3, 3), (1, 1), (1, 0), (0, 0), (0, 1), (2, 0), (2, 3), (9, 8)];
    let ids = [None, Some(1u32)];
    let nsym = nks.len() * ids.len();
    let sub = "state-sweep";
    for len in 1..=max_len {
        for code in 0..nsym.pow(len as u32) {
            let mut c = code;
            let mut lines = Vec::with_capacity(len);
            for pos in 0..len {
                let s = c % nsym;
                c /= nsym;
                let (n, k) = nks[s % nks.len()];
                lines.push(Line::new(build::line(n, k, ids[s / nks.len()], b"A", &[ALPHABET[1 + pos], b'5'], 0), pos % 2 == 1));
            }
            ctx.sweep_case(sub, cfg, &Input::History { lines }, check);
        }
    }
    ctx.mark_exhaustive(sub, &format!("all histories of length 1..={} over 24 symbols: (n,k) in {{(2,1),(2,2),(3,1),(3,2),(3,3),(1,1),(1,0),(0,0),(0,1),(2,0),(2,3),(9,8)}} x id {{absent,1}}", max_len));
}

fn payload_function_sweeps(ctx: &mut Ctx, cfg: &'static dyn Config) {
    let mut mix = Mix::new(ctx.seed, 0x0101);
    // unarmor: every length 0..=16 x fill 0..=5 x {all '0', all 'w', random}; long strings; arbitrary bytes
    for len in (0..=16usize).chain([383, 384, 385, 511, 512, 513, 514, 1100]) {
        for fill in 0..6usize {
            for kind in 0..4 {
                let data: Vec<u8> = match kind {
                    0 => vec![b'0'; len],
                    1 => vec![b'w'; len],
                    2 => mix.bytes(len).iter().map(|b| ALPHABET[(*b & 63) as usize]).collect(),
                    _ => mix.bytes(len),
                };
                ctx.sweep_case("unarmor-sweep", cfg, &Input::Unarmor { data, fill }, check);
            }
        }
    }
    ctx.mark_exhaustive("unarmor-sweep", "lengths 0..=16 and the capacity edges x fill 0..=5 x {all '0', all 'w', random alphabet, arbitrary bytes}");
    // messages::parse: every first-six-bits value x every length 0..=140 x {zeros, ones, random}
    let reps = ctx.tier.pick(1, 8);
    for t in 0..64u8 {
        for len in (0..=140usize).chain([200, 384, 400, 1100]) {
            for kind in 0..(2 + reps) {
                let mut b = match kind {
                    0 => vec![0u8; len],
                    1 => vec![0xff; len],
                    _ => mix.bytes(len),
                };
                if len > 0 {
                    set_bits(&mut b, 0, 6, t as u64);
                }
                ctx.sweep_case("parse-sweep", cfg, &Input::Payload { bytes: b }, check);
            }
        }
    }
    ctx.mark_exhaustive("parse-sweep", "64 type values x byte lengths 0..=140 and 200, 384, 400, 1100 x {zeros, ones, random}");
    // texts of every length through the sentence path (types 12 and 14), the no-allocator edge at 20 characters
    for t in [12u8, 14] {
        for nchars in 1..=60usize {
            let mut chars: Vec<u8> = mix.bytes(nchars + 12).iter().map(|b| ALPHABET[(*b & 63) as usize]).collect();
            chars[0] = ALPHABET[t as usize];
            ctx.sweep_case("safety-text-lengths", cfg, &Input::SentPayload { chars, fill: 0, cuts: vec![] }, check);
        }
    }
}

/// whole in-order groups up to the largest count the sentence format can express: the sequencing
/// arithmetic must survive fragment numbers up to 255
fn long_groups(ctx: &mut Ctx, cfg: &'static dyn Config) {
    for n in (2u32..=12).chain([63, 64, 100, 127, 128, 129, 200, 253, 254, 255]) {
        for id in [None, Some(3u32)] {
            let mut lines: Vec<Line> = (1..=n).map(|k| Line::new(build::line(n, k, id, b"A", &[ALPHABET[(k & 63) as usize]], 0), false)).collect();
            // and what may follow a delivered group of that size
            lines.push(Line::new(build::line(n, n, id, b"A", b"5", 0), false));
            lines.push(Line::new(build::line(255, 255, id, b"A", b"5", 0), false));
            lines.push(Line::new(build::line(255, 1, id, b"A", b"5", 0), false));
            lines.push(Line::new(build::line(255, 255, id, b"A", b"5", 0), true));
            ctx.sweep_case("long-groups", cfg, &Input::History { lines }, check);
        }
    }
    // a group kept waiting while hundreds of other lines pass: any per-line counter must cope
    for filler in 0..4usize {
        for count in [70usize, 256, 300, 600] {
            let mut lines = vec![Line::new(build::line(2, 1, Some(4), b"A", b"15", 0), false)];
            for i in 0..count {
                lines.push(match filler {
                    0 => Line::new(build::line(1, 1, None, b"B", b"177KQJ5000G?tO`K>RA1wUbN0TKH", 0), i % 2 == 0),
                    1 => Line::new(b"!AIVDM,1,1,,A,15,0*00".to_vec(), false),
                    2 => Line::new(build::line(2, 2, Some(5), b"A", b"5", 0), false),
                    _ => Line::new(b"$GPGGA,123519,4807.038,N,01131.000,E,1,08,0.9,545.4,M,46.9,M,,*47".to_vec(), false),
                });
            }
            lines.push(Line::new(build::line(2, 2, Some(4), b"A", b"55", 0), false));
            ctx.sweep_case("long-groups", cfg, &Input::History { lines }, check);
        }
    }
    ctx.mark_exhaustive("long-groups", "complete in-order groups of 2..=12, 63, 64, 100, 127..129, 200, 253, 254 and 255 fragments (one character each), with and without a sequence id, followed by stale and restarting fragments");
}

/// Inputs far beyond any protocol length (hundreds of kilobytes). A stack overflow or an abort kills
/// the process, so each is run in a child process (this binary, `--replay`); death by signal is a
/// violation with the input as replay file.
fn huge_inputs(ctx: &mut Ctx) {
    let sub = "huge-inputs";
    let exe = match std::env::current_exe() {
        Ok(e) => e,
        Err(_) => return,
    };
    let dir = format!("{}/target/huge", crate::engine::VERIF_DIR);
    let _ = std::fs::create_dir_all(&dir);
    let mut inputs: Vec<(String, Input)> = Vec::new();
    for &nchars in [30_000usize, 150_000, 400_000].iter() {
        for &(t, hdr_bits) in [(12u8, 72usize), (14, 40)].iter() {
            for fillbyte in [0x00u8, 0x82, 0xff] {
                // text of nchars characters: all '@' (zero bits), all ' ' (100000), all '?'
                let mut b = vec![fillbyte; (hdr_bits + 6 * nchars + 7) / 8];
                if fillbyte == 0x82 {
                    // 100000 repeated: spaces
                    for i in 0..nchars {
                        set_bits(&mut b, hdr_bits + 6 * i, 6, 32);
                    }
                }
                set_bits(&mut b, 0, 6, t as u64);
                inputs.push((format!("type {} with {} text characters of pattern {:#04x}", t, nchars, fillbyte), Input::Payload { bytes: b }));
            }
        }
        for t in [6u8, 8, 17, 5, 21] {
            let mut b = vec![0xa5u8; nchars];
            set_bits(&mut b, 0, 6, t as u64);
            inputs.push((format!("type {} of {} bytes", t, nchars), Input::Payload { bytes: b }));
        }
        inputs.push((format!("unarmor of {} characters", nchars), Input::Unarmor { data: vec![b'w'; nchars], fill: 5 }));
        for first in [b'<', b'>', b'8', b'5'] {
            let mut p = vec![b'0'; nchars];
            p[0] = first;
            inputs.push((format!("one sentence with a payload of {} characters starting with {:?}", nchars, first as char), Input::History { lines: vec![Line::new(build::line(1, 1, None, b"A", &p, 0), true), Line::new(build::line(2, 1, None, b"A", &p, 0), true), Line::new(build::line(2, 2, None, b"A", &p, 0), true)] }));
        }
        inputs.push((format!("one line of {} arbitrary bytes", nchars), Input::History { lines: vec![Line::new((0..nchars).map(|i| (i * 31 % 251) as u8).collect(), true)] }));
    }
    // the same sentences through the dev-profile build (the command-line tool)
    for &nchars in [30_000usize, 150_000, 400_000].iter() {
        for first in [b'<', b'>', b'8', b'5', b'E'] {
            for fillc in [b'0', b'P', b'w'] {
                let mut p = vec![fillc; nchars];
                p[0] = first;
                let mut bytes = build::line(1, 1, None, b"A", &p, 0);
                bytes.push(b'\n');
                bytes.extend_from_slice(b"!AIVDM,1,1,,B,177KQJ5000G?tO`K>RA1wUbN0TKH,0*5C\n");
                ctx.sweep_case("huge-inputs-dev-profile", &crate::adapter::STD, &Input::Stream { bytes }, check);
            }
        }
    }
    ctx.mark_exhaustive("huge-inputs-dev-profile", "sentences with payloads of 30 000 / 150 000 / 400 000 characters (types 12, 14, 8, 5, 21; filler '0', 'P', 'w') piped through the dev-profile aisparser: the process must not die");
    for (i, (what, input)) in inputs.iter().enumerate() {
        if ctx.sub_failed(sub) {
            break;
        }
        let path = format!("{}/huge-{}.json", dir, i);
        let body = serde_json::json!({"property": "C01", "sub": sub, "config": "all", "input": input.to_json()});
        if std::fs::write(&path, body.to_string()).is_err() {
            continue;
        }
        let out = std::process::Command::new(&exe).arg("C01").arg("--replay").arg(&path).env("AISVERIF_CHILD", "1").output();
        ctx.cases += 1;
        ctx.evals += 3;
        ctx.nontrivial_by_construction += 1;
        {
            let st = ctx.subs.entry(sub.to_string()).or_default();
            st.cases += 1;
            st.evals += 3;
        }
        match out {
            Ok(o) => match o.status.code() {
                Some(0) => {}
                Some(1) => {
                    // an ordinary (caught) failure: safe to judge in this process, which records it
                    for cfg in configs() {
                        ctx.sweep_case(sub, cfg, input, check);
                    }
                }
                other => {
                    let tail = String::from_utf8_lossy(&o.stderr);
                    ctx.record_violation(
                        sub,
                        &crate::adapter::STD,
                        input.clone(),
                        format!("{}: every call returns a result or an error value", what),
                        format!("the process running it died ({}); stderr tail: {}", match other { Some(c) => format!("exit code {}", c), None => "killed by a signal - stack overflow or abort".to_string() }, crate::util::clip(&tail[tail.len().saturating_sub(300)..], 300)),
                    );
                }
            },
            Err(e) => ctx.notes.push(format!("huge-inputs: cannot start the child process: {}", e)),
        }
        let _ = std::fs::remove_file(&path);
    }
    ctx.mark_exhaustive(sub, "types 12 and 14 with 30 000 / 150 000 / 400 000 text characters of '@', ' ' and '?'; types 5, 6, 8, 17, 21 of that many bytes; unarmor of that many characters; sentences and raw lines of that length - each in a child process, all three builds");
}

pub fn run(ctx: &mut Ctx) {
    ctx.rule = "no panic (debug assertions and overflow checks on), and the call returns, in each of the three build configurations: (1) raw byte strings, uniform and ASCII-biased, as single lines and as histories; (2) structured histories of 1..12 lines from the sentence builder with valid checksums, n and k from {0,1,2,3,9,10,255} and random, ids, channels, payloads of every kind including the capacity edges 384/385 and 512/513, fill 0..5, decode random, optional textual damage with or without a re-fixed checksum; adversarial fragment histories; (3) the payload functions: unarmor for every short length x fill x contents and long / arbitrary strings, messages::parse for every type value x every length 0..140 x contents, reference-encoded messages with directed field values at any length; (4) every history up to length 3 (quick) / 4 (thorough) over 24 fragment symbols including the not-validly-numbered ones. Non-trivial = a history with at least one line passing the checksum gate, a payload call with non-empty input; distinct by (input); each configuration counted.".into();
    ctx.assumptions = vec![
        "abort-class failures other than panics (stack overflow, out of memory) would kill the runner and be reported as an infrastructure error; none is plausible in this loop-free code".into(),
        "between about 1100 payload characters and the fixed huge inputs (30 000 to 400 000 characters) no lengths are generated".into(),
        "a case running longer than 60 s is reported as non-termination".into(),
    ];
    if ctx.tier == crate::engine::Tier::Thorough {
        crate::engine::collector_enable();
    }
    ctx.replay_regressions(check);
    let l = ctx.tier.pick(3, 4);
    for cfg in configs() {
        state_sweep(ctx, cfg, l);
        payload_function_sweeps(ctx, cfg);
        long_groups(ctx, cfg);
    }
    huge_inputs(ctx);
    // every pair of fields at special values (equal MMSIs, all-unavailable backgrounds ...) on all three builds
    {
        let mut mix = Mix::new(ctx.seed, 0xa11);
        for (t, len, part) in crate::gen::payload::pairwise_shapes() {
            for base in 0..4u8 {
                let mut inputs = Vec::new();
                crate::gen::payload::pairwise_specials(t, len, part, 1, base, &mut mix, |b| inputs.push(b));
                for b in inputs {
                    let input = Input::Payload { bytes: b };
                    for cfg in configs() {
                        ctx.sweep_case("pairwise-special-values", cfg, &input, check);
                    }
                }
            }
        }
        ctx.mark_exhaustive("pairwise-special-values", "every pair of fields of every layout at their special values, three backgrounds, all three builds");
    }
    let n = ctx.tier.pick(40_000, 700_000);
    for cfg in configs() {
        // (1) raw bytes
        let raw_line = prop_oneof![
            proptest::collection::vec(any::<u8>(), 0..600),
            proptest::collection::vec(prop_oneof![4 => 0x20u8..0x7f, 1 => any::<u8>()], 0..120),
            proptest::collection::vec(prop::sample::select(b"!$\\,*0123456789ABCDEFVDMIw`".to_vec()), 0..80),
        ];
        let raw_hist = proptest::collection::vec((raw_line, any::<bool>()).prop_map(|(b, d)| Line::new(b, d)), 1..6).prop_map(|lines| Input::History { lines });
        ctx.run_proptest("raw-bytes", cfg, n, raw_hist, check);
        // (2) structured
        let hist = proptest::collection::vec(structured_line(), 1..12).prop_map(|lines| Input::History { lines });
        ctx.run_proptest("structured-histories", cfg, n, hist, check);
        let adv = (adversarial_events(30), proptest::collection::vec(structured_line(), 0..4)).prop_map(|(e, extra)| {
            let mut lines: Vec<Line> = e.iter().map(render_ev).collect();
            lines.extend(extra);
            Input::History { lines }
        });
        ctx.run_proptest("adversarial-histories", cfg, n, adv, check);
        // (3) payload functions with directed field values
        ctx.run_proptest("encoded-messages", cfg, n, payload_inputs(SUPPORTED.to_vec(), LenMode::Any, Prop::C14, 6, 0.3), check);
        ctx.run_proptest("encoded-messages-any-type", cfg, n / 2, payload_inputs((0..64).collect(), LenMode::Standard, Prop::C04, 6, 0.3), check);
        let un = (proptest::collection::vec(any::<u8>(), 0..40), 0usize..6).prop_map(|(data, fill)| Input::Unarmor { data, fill });
        ctx.run_proptest("unarmor-arbitrary", cfg, n / 2, un, check);
    }
    ctx.fidelity_pass();
}
