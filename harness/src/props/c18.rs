//! C18 — std, alloc and no-allocator builds are observationally equivalent, except that the
//! no-allocator build rejects (never panics on, never truncates) inputs above its capacities.

use crate::adapter::{Config, ALLOC, NONE, STD};
use crate::engine::{Ctx, Input, Line, Rec, Verdict};
use crate::gen::payload::{payload_inputs, LenMode};
use crate::gen::sentence::{adversarial_events, inorder_group_history, render_ev, wellformed_spec};
use crate::outcome::{Outcome, PRes};
use crate::props::hist::{gate, Gate};
use crate::refmodel::armor::{self, ALPHABET};
use crate::refmodel::build;
use crate::refmodel::layout::{set_bits, Prop, SUPPORTED};
use crate::util::{esc, Mix};
use proptest::prelude::*;

pub const CAP_SENTENCE: usize = 384;
pub const CAP_BINARY: usize = 119;
pub const CAP_TEXT: usize = 20;

/// decode-level capacity of the no-allocator build, from the unarmoured bytes alone
pub fn decode_exceeds(bytes: &[u8]) -> bool {
    if bytes.is_empty() {
        return false;
    }
    let t = bytes[0] >> 2;
    let bits = bytes.len() * 8;
    match t {
        6 => bytes.len() > 11 + CAP_BINARY,
        8 => bytes.len() > 7 + CAP_BINARY,
        17 => bytes.len() > 15 + CAP_BINARY,
        12 => bits >= 72 && (bits - 72) / 6 > CAP_TEXT,
        14 => bits >= 40 && (bits - 40) / 6 > CAP_TEXT,
        _ => false,
    }
}

fn check_history(lines: &[Line], rec: &mut Rec) -> Verdict {
    let mut ps = STD.new_parser();
    let mut pa = ALLOC.new_parser();
    let mut pn = NONE.new_parser();
    // a std parser that is fed only the lines the no-allocator build did not reject for capacity
    let mut ps_view = STD.new_parser();
    // bytes the no-allocator parser holds for its open group, tracked from its own results
    let mut held = 0usize;
    // set when a fragment of the open group was refused for capacity; until the no-allocator parser
    // accepts a new first fragment it may keep the group (as if the line had never arrived) or give it
    // up - either way it must never hand out something the std build would not
    let mut tainted = false;
    let mut notes = Vec::new();
    let mut cap_events = 0;
    for (i, l) in lines.iter().enumerate() {
        let os = ps.parse(&l.bytes, l.decode);
        let oa = pa.parse(&l.bytes, l.decode);
        let on = pn.parse(&l.bytes, l.decode);
        rec.evals += 3;
        for (name, o) in [("std", &os), ("alloc", &oa), ("none", &on)] {
            if let Outcome::Panic(m) = o {
                return Verdict::fail(format!("line {}: a result or an error value in the {} build", i, name), format!("panic: {}", m));
            }
        }
        if os.canon() != oa.canon() {
            return Verdict::fail(format!("line {}: std and alloc builds agree; std: {}", i, os.brief()), format!("alloc: {}", oa.brief()));
        }
        // independent capacity rule, from the input and from what `none` has accepted so far
        let g = gate(&l.bytes);
        let mut sentence_level = false;
        let mut decode_level = false;
        let fields = match &g {
            Gate::Pass(f) | Gate::StarInField(f) => Some(f.clone()),
            _ => None,
        };
        // a payload field above 384 bytes exceeds the capacity whatever else is wrong with the line (the
        // no-allocator build may notice that before it gets to the checksum: any error category will do)
        if let Gate::BadChecksum(f) = &g {
            if f.payload.len() > CAP_SENTENCE {
                sentence_level = true;
            }
        }
        let mut prospective = held;
        if let Some(f) = &fields {
            let first = f.fragment_number == 1 && f.fragment_number < f.num_fragments;
            let fragment = f.num_fragments != 1;
            prospective = if first { f.payload.len() } else { held + f.payload.len() };
            if f.payload.len() > CAP_SENTENCE || (fragment && !first && prospective > CAP_SENTENCE) {
                // (if the line would have been rejected by the sequencing rules anyway, treating it
                // as a capacity rejection changes nothing: either way it must be an error in `none`
                // and leaves no trace in the std parser it is withheld from)
                sentence_level = true;
            }
        }
        if sentence_level {
            cap_events += 1;
            rec.class("capacity-exceeded-at-sentence-level");
            if !on.is_err() {
                return Verdict::fail(
                    format!("line {}: the no-allocator build rejects it with an error (payload / reassembled total above {} bytes)", i, CAP_SENTENCE),
                    on.brief(),
                );
            }
            if notes.len() < 8 {
                notes.push(format!("[{}] over capacity -> none: {}", i, crate::util::clip(&on.brief(), 60)));
            }
            if fields.as_ref().map(|f| f.num_fragments != 1).unwrap_or(false) {
                tainted = true;
            }
            continue;
        }
        let ov = ps_view.parse(&l.bytes, l.decode);
        rec.evals += 1;
        // keep `held` in step with what `none` did
        if let Some(f) = &fields {
            let fragment = f.num_fragments != 1;
            match &on {
                Outcome::Incomplete(_) => held = prospective,
                Outcome::Complete(_) if fragment => held = 0,
                Outcome::Err(_) if fragment && l.decode && f.fragment_number >= f.num_fragments => {
                    // ambiguous: rejected by sequencing, or accepted as final and the group's payload
                    // did not decode. Ask a fresh no-allocator parser fed the same prefix, decoding off.
                    let mut p2 = NONE.new_parser();
                    for pl in &lines[..i] {
                        p2.parse(&pl.bytes, pl.decode);
                    }
                    if p2.parse(&l.bytes, false).is_ok() {
                        held = 0;
                    }
                }
                _ => {}
            }
        }
        // decode-level capacity: judged on the payload the message is decoded from (the line's own,
        // or the reassembled one as the std build fed the same accepted lines delivers it)
        if l.decode {
            if let (Outcome::Complete(s), Some(f)) = (&ov, &fields) {
                if let Some(bytes) = armor::unarmor(&s.data, f.fill as usize) {
                    decode_level = decode_exceeds(&bytes);
                }
            }
        }
        if decode_level {
            cap_events += 1;
            rec.class("capacity-exceeded-at-decode-level");
            match (&ov, &on) {
                (_, Outcome::Err(_)) => {}
                (_, o) => {
                    return Verdict::fail(
                        format!("line {}: the no-allocator build rejects with an error a message exceeding its fixed capacities ({} data bytes / {} text characters); it never truncates", i, CAP_BINARY, CAP_TEXT),
                        o.brief(),
                    );
                }
            }
            continue;
        }
        if let Some(f) = &fields {
            if f.fragment_number == 1 && f.fragment_number < f.num_fragments && matches!(on, Outcome::Incomplete(_)) {
                tainted = false; // a new group: both parsers start afresh
            }
        }
        if tainted && on.is_err() && fields.as_ref().map(|f| f.num_fragments != 1 && f.fragment_number != 1).unwrap_or(false) {
            // a continuation of the group that lost a fragment to the capacity limit: rejecting it is
            // within "rejects inputs exceeding its fixed capacities"
            rec.class("continuation-of-a-capacity-hit-group-rejected");
            continue;
        }
        if ov.canon() != on.canon() {
            return Verdict::fail(
                format!(
                    "line {} ({:?}): the no-allocator build agrees with the std build{}: {}",
                    i,
                    crate::util::clip(&esc(&l.bytes), 80),
                    if cap_events > 0 { " fed the same history minus the lines rejected for capacity" } else { "" },
                    ov.brief()
                ),
                format!("none: {}", on.brief()),
            );
        }
        if on.is_ok() {
            rec.nontrivial = true;
        }
        if rec.want_note && notes.len() < 8 {
            notes.push(format!("[{}] {:?} -> all three: {}", i, crate::util::clip(&esc(&l.bytes), 60), crate::util::clip(&on.brief(), 80)));
        }
    }
    if cap_events > 0 {
        rec.nontrivial = true;
    }
    if rec.want_note {
        rec.note = Some(notes.join(" | "));
    }
    Verdict::Pass
}

fn check_payload(bytes: &[u8], rec: &mut Rec) -> Verdict {
    let rs = STD.parse_msg(bytes);
    let ra = ALLOC.parse_msg(bytes);
    let rn = NONE.parse_msg(bytes);
    rec.evals += 3;
    for (name, r) in [("std", &rs), ("alloc", &ra), ("none", &rn)] {
        if let PRes::Panic(m) = r {
            return Verdict::fail(format!("messages::parse returns a message or an error value in the {} build", name), format!("panic: {}", m));
        }
    }
    let canon = |r: &PRes<String>| match r {
        PRes::Ok(s) => format!("O{}", s),
        PRes::Err(e) => format!("E{}", e.category()),
        PRes::Panic(_) => "P".into(),
    };
    if canon(&rs) != canon(&ra) {
        return Verdict::fail(format!("std and alloc agree; std: {}", rs.brief()), format!("alloc: {}", ra.brief()));
    }
    if decode_exceeds(bytes) {
        rec.class("capacity-exceeded-at-decode-level");
        rec.nontrivial = true;
        if rs.is_ok() && !rn.is_err() {
            return Verdict::fail("the no-allocator build rejects with an error a message exceeding its fixed capacities; it never truncates", rn.brief());
        }
        if rs.is_err() && !rn.is_err() {
            return Verdict::fail(format!("an error, as in the std build: {}", rs.brief()), rn.brief());
        }
        return Verdict::Pass;
    }
    if canon(&rs) != canon(&rn) {
        return Verdict::fail(format!("the no-allocator build agrees with std: {}", rs.brief()), format!("none: {}", rn.brief()));
    }
    rec.nontrivial = rs.is_ok();
    if rec.want_note {
        rec.note = Some(format!("messages::parse of {} byte(s): all three builds: {}", bytes.len(), crate::util::clip(&rs.brief(), 200)));
    }
    Verdict::Pass
}

fn check_unarmor(data: &[u8], fill: usize, rec: &mut Rec) -> Verdict {
    let rs = STD.unarmor(data, fill);
    let ra = ALLOC.unarmor(data, fill);
    let rn = NONE.unarmor(data, fill);
    rec.evals += 3;
    for (name, r) in [("std", &rs), ("alloc", &ra), ("none", &rn)] {
        if let PRes::Panic(m) = r {
            return Verdict::fail(format!("messages::unarmor returns bytes or an error value in the {} build", name), format!("panic: {}", m));
        }
    }
    let canon = |r: &PRes<Vec<u8>>| match r {
        PRes::Ok(s) => format!("O{}", crate::util::hex(s)),
        PRes::Err(e) => format!("E{}", e.category()),
        PRes::Panic(_) => "P".into(),
    };
    if canon(&rs) != canon(&ra) {
        return Verdict::fail(format!("std and alloc agree; std: {}", rs.brief()), format!("alloc: {}", ra.brief()));
    }
    let out_bytes = (data.len() * 6 + 7) / 8;
    if out_bytes > CAP_SENTENCE {
        rec.class("capacity-exceeded-unarmor-output");
        rec.nontrivial = true;
        if !rn.is_err() {
            return Verdict::fail(format!("the no-allocator build rejects an output of {} bytes (> {})", out_bytes, CAP_SENTENCE), rn.brief());
        }
        return Verdict::Pass;
    }
    if canon(&rs) != canon(&rn) {
        return Verdict::fail(format!("the no-allocator build agrees with std: {}", rs.brief()), format!("none: {}", rn.brief()));
    }
    rec.nontrivial = rs.is_ok() && !data.is_empty();
    Verdict::Pass
}

pub fn check(_sub: &str, _cfg: &'static dyn Config, input: &Input, rec: &mut Rec) -> Verdict {
    crate::engine::collect(input);
    match input {
        Input::History { lines } => check_history(lines, rec),
        Input::Payload { bytes } => check_payload(bytes, rec),
        Input::Unarmor { data, fill } => check_unarmor(data, *fill, rec),
        Input::SentPayload { chars, fill, cuts } => {
            let lines: Vec<Line> = if cuts.is_empty() {
                vec![Line::new(build::line(1, 1, None, b"A", chars, *fill as u32), true)]
            } else {
                let pieces = build::split_at(chars, cuts);
                let n = pieces.len() as u32;
                pieces.iter().enumerate().map(|(i, p)| Line::new(build::line(n, i as u32 + 1, Some(2), b"B", p, if i as u32 + 1 == n { *fill as u32 } else { 0 }), true)).collect()
            };
            check_history(&lines, rec)
        }
        _ => crate::engine::infra_error("C18: unexpected input kind"),
    }
}

/// histories around the capacity edges
pub fn capacity_histories() -> impl Strategy<Value = Input> {
    // a group of 2..4 fragments whose total straddles 384, possibly followed by a fresh group
    (
        proptest::collection::vec(prop::sample::select(vec![1usize, 2, 100, 150, 183, 184, 185, 190, 192, 193, 200, 383, 384, 385, 386, 400]), 2..5),
        any::<u8>(),
        prop_oneof![Just(None), (0u32..3).prop_map(Some)],
        any::<bool>(),
        adversarial_events(4),
        any::<bool>(),
    )
        .prop_map(|(sizes, salt, id, decode, after, type_text)| {
            let n = sizes.len() as u32;
            let mut lines = Vec::new();
            for (i, sz) in sizes.iter().enumerate() {
                let mut p: Vec<u8> = (0..*sz).map(|j| ALPHABET[(j * 5 + salt as usize + i) & 63]).collect();
                if i == 0 {
                    // type 8 (binary) or 14 (text): decodable whatever follows
                    p[0] = if type_text { b'>' } else { b'8' };
                }
                lines.push(Line::new(build::line(n, i as u32 + 1, id, b"A", &p, 0), decode && i as u32 + 1 == n));
            }
            // the last fragment once more, this time short: if the long one was refused for capacity the
            // group is still open and must now complete with everything accepted before
            if salt & 1 == 1 {
                lines.push(Line::new(build::line(n, n, id, b"A", b"7", 0), decode));
            }
            lines.extend(after.iter().map(render_ev));
            // and the group once more, to see that the parser is still in step afterwards
            lines.push(Line::new(build::line(2, 1, id, b"A", b"15", 0), false));
            lines.push(Line::new(build::line(2, 2, id, b"A", b"55", 0), false));
            Input::History { lines }
        })
}

pub fn run(ctx: &mut Ctx) {
    ctx.rule = "three-way differential inside one process (the library compiled three times from /repo/src): every line of every generated history, and every payload-function input, is given to the std, alloc and no-allocator builds; Ok results must be identical field for field (typed sentence fields, Debug rendering of the message), errors must agree on category (and on both bytes for checksum errors). Only tolerated difference: the input exceeds a fixed capacity by a rule computed from the input alone (payload field > 384 bytes; reassembled total > 384; types 6/8/17 with > 119 data bytes; safety text > 20 characters) - then the no-allocator build must return an error, and afterwards must behave exactly like the std build fed the same history without the lines rejected for capacity (so silent truncation or a half-updated state shows). Generators: C05's in-order groups, C06's adversarial histories, well-formed single sentences, reference-encoded messages at all lengths, and histories / payloads built around the capacity edges. Non-trivial = all three accept, or a capacity edge is involved; distinct by input.".into();
    ctx.assumptions = vec![
        "cargo unifies nom's features across the three wrapper packages, so the no-allocator copy links a nom with std/alloc enabled; the crate's own cfg(feature) gates, which is what the property is about, are exact (DESIGN.md 2.2)".into(),
        "error message texts are never compared".into(),
    ];
    if ctx.tier == crate::engine::Tier::Thorough {
        crate::engine::collector_enable();
    }
    ctx.replay_regressions(check);
    let n = ctx.tier.pick(32_000, 300_000);
    ctx.run_proptest("inorder-groups", &NONE, n, inorder_group_history(), check);
    ctx.run_proptest("adversarial-histories", &NONE, n, adversarial_events(30).prop_map(|e| Input::History { lines: e.iter().map(render_ev).collect() }), check);
    ctx.run_proptest("single-sentences", &NONE, n, (wellformed_spec(), any::<bool>()).prop_map(|(s, d)| Input::History { lines: vec![Line::new(s.render(), d)] }), check);
    ctx.run_proptest("capacity-histories", &NONE, n / 2, capacity_histories(), check);
    // sentences that are not validly numbered (count 0, number 0, number above count) are outside the
    // sequencing properties, but the three builds must still agree on them, whatever the history
    let odd = (adversarial_events(12), proptest::collection::vec((prop::sample::select(vec![(0u32, 1u32), (0, 0), (0, 2), (0, 3), (1, 0), (2, 0), (2, 3), (1, 2), (3, 9)]), prop_oneof![Just(None), (0u32..4).prop_map(Some)], crate::gen::sentence::token_payload(), any::<bool>(), any::<u16>()), 1..5)).prop_map(|(evs, odds)| {
        let mut lines: Vec<Line> = evs.iter().map(render_ev).collect();
        for ((n, k), id, p, decode, pos) in odds {
            let at = (pos as usize * (lines.len() + 1)) >> 16;
            lines.insert(at, Line::new(build::line(n, k, id, b"A", &p, 0), decode));
        }
        Input::History { lines }
    });
    ctx.run_proptest("not-validly-numbered", &NONE, n, odd, check);
    ctx.run_proptest("encoded-messages", &NONE, n * 2, payload_inputs(SUPPORTED.to_vec(), LenMode::Any, Prop::C14, 6, 0.25), check);
    ctx.run_proptest("encoded-messages-standard", &NONE, n, payload_inputs(SUPPORTED.to_vec(), LenMode::Standard, Prop::C04, 8, 0.25), check);
    ctx.run_proptest("raw-lines", &NONE, n, proptest::collection::vec(any::<u8>(), 0..100).prop_map(|b| Input::History { lines: vec![Line::new(b, true)] }), check);
    // deterministic capacity edges for the payload functions
    let mut mix = Mix::new(ctx.seed, 18);
    for &(t, hdr) in [(6u8, 11usize), (8, 7), (17, 15)].iter() {
        for extra in [0usize, 1, 117, 118, 119, 120, 121, 122, 200] {
            for _ in 0..4 {
                let mut b = mix.bytes(hdr + extra);
                set_bits(&mut b, 0, 6, t as u64);
                ctx.sweep_case("binary-capacity-edge", &NONE, &Input::Payload { bytes: b.clone() }, check);
                if b.len() * 8 / 6 < 380 {
                    let (chars, fill) = armor::armor_bytes(&b);
                    ctx.sweep_case("binary-capacity-edge", &NONE, &Input::SentPayload { chars, fill, cuts: vec![] }, check);
                }
            }
        }
    }
    for &(t, hdr_bits) in [(12u8, 72usize), (14, 40)].iter() {
        for nchars in [1usize, 2, 18, 19, 20, 21, 22, 23, 40, 156] {
            for _ in 0..4 {
                let nbits = hdr_bits + 6 * nchars;
                let mut b = mix.bytes((nbits + 7) / 8);
                set_bits(&mut b, 0, 6, t as u64);
                ctx.sweep_case("text-capacity-edge", &NONE, &Input::Payload { bytes: b.clone() }, check);
                let (chars, fill) = armor::armor_bits(&b, nbits);
                ctx.sweep_case("text-capacity-edge", &NONE, &Input::SentPayload { chars, fill, cuts: vec![] }, check);
            }
        }
    }
    for len in [0usize, 1, 4, 383, 384, 385, 511, 512, 513, 514, 600] {
        for fill in 0..6 {
            let data: Vec<u8> = mix.bytes(len).iter().map(|b| ALPHABET[(*b & 63) as usize]).collect();
            ctx.sweep_case("unarmor-capacity-edge", &NONE, &Input::Unarmor { data, fill }, check);
        }
    }
    for len in [380usize, 383, 384, 385, 386, 400] {
        let p: Vec<u8> = mix.bytes(len).iter().map(|b| ALPHABET[(*b & 63) as usize]).collect();
        // the same with a wrong checksum: above the capacity the no-allocator build may fail before it
        // looks at the checksum (any error will do); at or below it must report the checksum like the others
        let mut bad = build::Spec::simple(1, 1, None, b"A", &p, 0);
        bad.cks = build::Cks::Delta(0x21);
        ctx.sweep_case("payload-capacity-edge", &NONE, &Input::History { lines: vec![Line::new(bad.render(), false), Line::new(build::line(1, 1, None, b"A", b"15", 0), false)] }, check);
        for decode in [false, true] {
            ctx.sweep_case("payload-capacity-edge", &NONE, &Input::History { lines: vec![Line::new(build::line(1, 1, None, b"A", &p, 0), decode), Line::new(build::line(2, 1, None, b"A", &p, 0), decode), Line::new(build::line(2, 2, None, b"A", b"0", 0), decode)] }, check);
        }
    }
    ctx.fidelity_pass();
}
