//! C12 — enumerated codes map to the named values, injectively, unknowns preserved.

use crate::adapter::{configs, Config, STD};
use crate::engine::{Ctx, Input, Rec, Verdict};
use crate::outcome::PRes;
use crate::props::payload::{check_bytes, check_input};
use crate::refmodel::dbgtree;
use crate::refmodel::layout::{self, get_bits, refdecode, set_bits, Prop, RefMsg, SUPPORTED};
use crate::util::Mix;
use std::collections::HashMap;

fn nontrivial(r: &RefMsg, _bytes: &[u8]) -> bool {
    matches!(r, RefMsg::Msg(d) if d.fields.iter().any(|f| f.checks.iter().any(|(p, _)| *p == Prop::C12)))
}

/// Sub-check `enum-field-sweep`: for every enumerated field of the payload, place every code
/// there (other bits unchanged), compare each with the table, and require distinct codes to give
/// distinct renderings unless the table maps both to 'absent'.
fn sweep_fields(cfg: &'static dyn Config, bytes: &[u8], rec: &mut Rec) -> Verdict {
    let dec = match refdecode(bytes) {
        RefMsg::Msg(d) => d,
        _ => return Verdict::Excluded("not a decodable payload"),
    };
    rec.nontrivial = true;
    for f in dec.fields.iter().filter(|f| f.width > 0 && f.width <= 8 && f.checks.iter().any(|(p, _)| *p == Prop::C12)) {
        let mut seen: HashMap<String, u64> = HashMap::new();
        for code in 0..(1u64 << f.width) {
            let mut b = bytes.to_vec();
            set_bits(&mut b, f.start, f.width, code);
            let mut r2 = Rec::default();
            match check_bytes(Prop::C12, cfg, &b, nontrivial, &mut r2) {
                Verdict::Pass => {}
                Verdict::Fail { expected, observed } => {
                    return Verdict::Fail { expected: format!("code {} in {}: {}", code, f.path, expected), observed };
                }
                other => return other,
            }
            rec.evals += 1;
            // injectivity on the observed renderings (computed, not assumed)
            if let PRes::Ok(s) = cfg.parse_msg(&b) {
                if let Ok(tree) = dbgtree::parse(&s) {
                    // the field may legitimately have moved if it is structural (part number):
                    // look it up again in the decoding of the modified bytes
                    if let Some(v) = tree.child("0").and_then(|i| i.get(&f.path)) {
                        let r = format!("{:?}", v);
                        if f.path == "message_part" {
                            continue;
                        }
                        if r != "None" {
                            if let Some(prev) = seen.insert(r.clone(), code) {
                                return Verdict::fail(
                                    format!("distinct codes of {} give distinct values", f.path),
                                    format!("codes {} and {} both decode to {}", prev, code, r),
                                );
                            }
                        }
                    }
                }
            }
        }
    }
    if rec.want_note {
        rec.note = Some(format!("type {}: every code of every enumerated field placed and compared", dec.mtype));
    }
    Verdict::Pass
}

fn ship_code(cfg: &'static dyn Config, code: u8, rec: &mut Rec) -> Verdict {
    rec.evals += 1;
    rec.nontrivial = true;
    match cfg.shiptype_parse(code) {
        PRes::Panic(m) => Verdict::fail("a value", format!("panic: {}", m)),
        PRes::Err(_) => unreachable!(),
        PRes::Ok((render, back)) => {
            let want = layout::ship_type(code as u64);
            if rec.want_note {
                rec.note = Some(format!("ShipType::parse({}) = {} ; u8::from = {:?}", code, render, back));
            }
            if render != want {
                return Verdict::fail(format!("ShipType::parse({}) = {}", code, want), render);
            }
            let want_back = if (1..=99).contains(&code) { Some(code) } else { None };
            if back != want_back {
                return Verdict::fail(format!("u8::from(ShipType::parse({})) = {:?}", code, want_back), format!("{:?}", back));
            }
            Verdict::Pass
        }
    }
}

pub fn check(sub: &str, cfg: &'static dyn Config, input: &Input, rec: &mut Rec) -> Verdict {
    match (sub, input) {
        (_, Input::ShipCode { code }) => ship_code(cfg, *code, rec),
        ("enum-field-sweep", Input::Payload { bytes }) => sweep_fields(cfg, bytes, rec),
        _ => check_input(Prop::C12, cfg, input, nontrivial, rec),
    }
}

pub fn run(ctx: &mut Ctx) {
    ctx.rule = "exhaustive: every code (all 2^width; 256 for ship type) of every enumerated field in every layout that carries it, with zero, all-one and random neighbours, compared with tables typed in from M.1371-5 (undefined codes absent, unassigned codes rendered with their number), plus injectivity computed on the observed values, plus ShipType::parse / u8::from for all 256 codes. Every (field, code) pair is non-trivial; distinct by (payload bytes).".into();
    ctx.replay_regressions(check);
    for code in 0..=255u8 {
        for cfg in configs() {
            ctx.sweep_case("shiptype-conversions", cfg, &Input::ShipCode { code }, check);
        }
    }
    ctx.mark_exhaustive("shiptype-conversions", "all 256 codes through ShipType::parse and u8::from");
    let mut mix = Mix::new(ctx.seed, 12);
    let reps = ctx.tier.pick(4, 60);
    for &t in SUPPORTED.iter() {
        for len in layout::standard_lengths(t) {
            for rep in 0..(2 + reps) {
                let mut b = match rep {
                    0 => vec![0u8; len],
                    1 => vec![0xffu8; len],
                    _ => mix.bytes(len),
                };
                set_bits(&mut b, 0, 6, t as u64);
                let parts: Vec<u64> = if t == 24 { vec![0, 1, 2, 3] } else { vec![get_bits(&b, 38, 2)] };
                for part in parts {
                    if t == 24 {
                        set_bits(&mut b, 38, 2, part);
                    }
                    if ctx.sub_failed("enum-field-sweep") {
                        return;
                    }
                    for cfg in configs() {
                        ctx.sweep_case("enum-field-sweep", cfg, &Input::Payload { bytes: b.clone() }, check);
                    }
                }
            }
        }
    }
    ctx.mark_exhaustive("enum-field-sweep", "every code of navigation status, manoeuvre, position-fix device, ship type, aid type, sync state, DTE, accuracy, assigned mode, carrier-sense unit and static-data part in every layout carrying them x {zero, all-one, random} neighbours");
    // synchronisation state: all 2^19 / 2^20 state values of every type that carries one, with the flags in
    // front of the state clear, set and random (the sync code must map to its name whatever the rest says)
    {
        let type9_listed = ctx.findings.iter().any(|f| f.sig == crate::props::payload::SIG_TYPE9);
        let mut jobs = Vec::new();
        for &t in [1u8, 2, 3, 4, 9, 11, 18].iter() {
            let total: u32 = if t == 9 || t == 18 { 1 << 20 } else { 1 << 19 };
            for flags in [None, Some(0u64), Some(0x7f)] {
                let mut lo = 0u32;
                while lo < total {
                    jobs.push((t, lo, lo + (1 << 17), flags));
                    lo += 1 << 17;
                }
            }
        }
        let seed = ctx.seed;
        let results = crate::util::par_map(jobs, move |(t, lo, hi, flags)| {
            let mut mix = Mix::new(seed, 0xc12 + ((t as u64) << 32) + lo as u64);
            let mut base = mix.bytes(21);
            let mut n = 0u64;
            let mut known = 0u64;
            let mut bad: Option<Vec<u8>> = None;
            for v in lo..hi {
                if v & 0xfff == 0 {
                    base = mix.bytes(21);
                }
                set_bits(&mut base, 0, 6, t as u64);
                if let Some(fl) = flags {
                    let (st, w) = match t { 18 => (141usize, 7usize), 9 => (142, 6), 1..=3 => (143, 6), _ => (148, 1) };
                    set_bits(&mut base, st, w, fl & ((1 << w) - 1));
                }
                let sync = if t == 9 || t == 18 {
                    set_bits(&mut base, 148, 20, v as u64);
                    (v >> 17) & 3
                } else {
                    set_bits(&mut base, 149, 19, v as u64);
                    (v >> 17) & 3
                };
                n += 1;
                match crate::typed::decode_radio(&base) {
                    Some(obs) if obs.1 as u32 == sync => {}
                    Some(obs) if t == 9 && type9_listed && obs.1 as u64 == get_bits(&base, 148, 2) => known += 1,
                    _ => {
                        if bad.is_none() {
                            bad = Some(base.clone());
                        }
                    }
                }
            }
            (n, known, bad)
        });
        let sub = "sync-state-all-states";
        let mut total = 0u64;
        let mut known_total = 0u64;
        for (n, known, bad) in results {
            total += n;
            known_total += known;
            if let Some(bytes) = bad {
                // re-judged through the generic comparison, which alone produces verdicts
                ctx.sweep_case(sub, &crate::adapter::STD, &Input::Payload { bytes }, check);
            }
        }
        if known_total > 0 {
            if let Some(e) = ctx.known.get_mut(crate::props::payload::SIG_TYPE9) {
                e.0 += known_total;
            } else {
                ctx.known.insert(crate::props::payload::SIG_TYPE9.to_string(), (known_total, "type 9 sync state read from bits 148..149 (typed sweep)".to_string()));
            }
        }
        let st = ctx.subs.entry(sub.to_string()).or_default();
        st.cases += total;
        st.evals += total;
        ctx.cases += total;
        ctx.evals += total;
        ctx.nontrivial_by_construction += total;
        ctx.mark_exhaustive(sub, "all state values (with selector for types 9 and 18) of types 1, 2, 3, 4, 9, 11, 18 x flags in front of the state {random, all clear, all set}: the reported sync state equals the two bits at its position");
    }
    // the same generated payloads, a tenth of them through the sentence path (fragments included), on the
    // alloc and no-allocator builds
    for cfg in crate::adapter::configs().into_iter().skip(1) {
        let n_other = ctx.tier.pick(20_000, 200_000);
        ctx.run_proptest("random-assignments", cfg, n_other, crate::gen::payload::payload_inputs(SUPPORTED.to_vec(), crate::gen::payload::LenMode::Standard, Prop::C12, 8, 0.15), check);
    }
    // every field inverted as a whole and bit by bit against all-zero and all-one backgrounds
    for &t in crate::refmodel::layout::SUPPORTED.iter() {
        for len in crate::refmodel::layout::standard_lengths(t) {
            let mut inputs = Vec::new();
            crate::gen::payload::field_sweep(t, len, |b| inputs.push(b));
            for b in inputs {
                ctx.sweep_case("field-sweep", &crate::adapter::STD, &Input::Payload { bytes: b }, check);
            }
        }
    }
    ctx.mark_exhaustive("field-sweep", "every field of every specified shape x {inverted whole, each single bit inverted} x {all-zero, all-one background}");
    // every pair of fields at their special values (see gen::payload::pairwise_specials)
    {
        let mut mix = crate::util::Mix::new(ctx.seed, 0xa11);
        let reps = ctx.tier.pick(1, 6);
        for (t, len, part) in crate::gen::payload::pairwise_shapes() {
            
            for base in 0..4u8 {
                crate::gen::payload::pairwise_specials(t, len, part, if base == 0 { reps } else { 1 }, base, &mut mix, |b| {
                    ctx.sweep_case("pairwise-special-values", &crate::adapter::STD, &Input::Payload { bytes: b }, check);
                });
            }
        }
        ctx.mark_exhaustive("pairwise-special-values", "every pair of fields of every layout (longest specified shape, and the shortest for the variable ones) x each field's special values (0, 1, max, max-1, 'not available' codes, MMSI station classes, time-stamp codes 60..63; all values of fields up to 3 bits), against three backgrounds: the other bits random, all zero, and 'everything unavailable'");
    }
    // decoding after an arbitrary history, in an unfragmented sentence or in a closing line without a group
    {
        let n_after = ctx.tier.pick(24_000, 300_000);
        ctx.run_proptest("after-history", &crate::adapter::STD, n_after, crate::gen::payload::payload_inputs_after(SUPPORTED.to_vec(), Prop::C12), check);
    }
}
