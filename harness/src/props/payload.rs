//! The comparison shared by the payload-level properties C04 and C09–C16: decode the bytes
//! with the library, decode them with the reference (R4), and compare exactly the expectations
//! the given property owns.

use crate::adapter::Config;
use crate::engine::{Input, Rec, Verdict};
use crate::outcome::{Outcome, PRes};
use crate::refmodel::layout::{self, compare, refdecode, Prop, RefMsg};
use crate::refmodel::{armor, build, dbgtree};

pub const SIG_TYPE9: &str = "type9-commstate-one-bit-early";

/// non-triviality rule of a property, evaluated on the reference decoding
pub type NonTrivial = fn(&RefMsg, &[u8]) -> bool;

/// Compare `observed` (the Debug rendering of an `AisMessage`, or an error) with the reference
/// decoding of `bytes` for property `prop`.
pub fn judge(prop: Prop, bytes: &[u8], observed: &PRes<String>, nt: NonTrivial, rec: &mut Rec) -> Verdict {
    let r = refdecode(bytes);
    rec.evals += 1;
    rec.nontrivial = nt(&r, bytes);
    if let PRes::Panic(m) = observed {
        return Verdict::fail("a message or an error value", format!("panic: {}", m));
    }
    match &r {
        RefMsg::Unsupported(t) => {
            rec.class("unsupported-type");
            if prop == Prop::C09 && observed.is_ok() {
                return Verdict::fail(format!("an error (type {} is not supported)", t), observed.brief());
            }
            if rec.want_note {
                rec.note = Some(format!("type {} unsupported -> {}", t, observed.brief()));
            }
            Verdict::Pass
        }
        RefMsg::TooShort { mtype, need_bytes } => {
            rec.class("too-short");
            if (prop == Prop::C14 || prop == Prop::C09) && observed.is_ok() {
                return Verdict::fail(
                    format!("an error (type {} needs at least {} bytes, got {})", mtype, need_bytes, bytes.len()),
                    observed.brief(),
                );
            }
            if rec.want_note {
                rec.note = Some(format!("type {} too short ({} < {} bytes) -> {}", mtype, bytes.len(), need_bytes, observed.brief()));
            }
            Verdict::Pass
        }
        RefMsg::Unpinned { why, .. } => {
            rec.class("unpinned-length");
            if rec.want_note {
                rec.note = Some(format!("{} -> {}", why, observed.brief()));
            }
            Verdict::Pass
        }
        RefMsg::Msg(dec) => {
            let s = match observed {
                PRes::Ok(s) => s,
                PRes::Err(e) => {
                    if dec.must_be_ok {
                        return Verdict::fail(
                            format!("{} decoded from {} bytes of type {}", dec.variant, bytes.len(), dec.mtype),
                            format!("Err({:?})", e),
                        );
                    }
                    rec.class("overlong-rejected");
                    return Verdict::Pass;
                }
                PRes::Panic(_) => unreachable!(),
            };
            let tree = match dbgtree::parse(s) {
                Ok(t) => t,
                Err(e) => crate::engine::infra_error(&format!("cannot parse Debug output {:?}: {}", s, e)),
            };
            if prop == Prop::C09 && tree.name() != Some(dec.variant) {
                return Verdict::fail(format!("variant {} for type {}", dec.variant, dec.mtype), format!("variant {:?}: {}", tree.name(), crate::util::clip(s, 300)));
            }
            let inner = match tree.child("0") {
                Some(i) => i,
                None => return Verdict::fail("a tuple variant wrapping the message struct", crate::util::clip(s, 300)),
            };
            let mm = compare(dec, inner, prop);
            if rec.want_note {
                rec.note = Some(format!(
                    "type {} / {} bytes: {} expectation(s) owned by {} compared; decoded: {}",
                    dec.mtype,
                    bytes.len(),
                    layout::count_checks(dec, prop),
                    prop.id(),
                    crate::util::clip(s, 500)
                ));
            }
            if mm.is_empty() {
                return Verdict::Pass;
            }
            let expected = mm.iter().take(4).map(|m| format!("{} (bits {}..{}) = {}", m.path, m.start, m.start + m.width, m.expected)).collect::<Vec<_>>().join("; ");
            let observed_s = mm.iter().take(4).map(|m| format!("{} = {}", m.path, m.observed)).collect::<Vec<_>>().join("; ");
            // known finding: type 9 reads its communication state one bit early, always as SOTDMA
            if (prop == Prop::C16 || prop == Prop::C12) && dec.mtype == 9 && mm.iter().all(|m| m.path.starts_with("radio_status")) && bytes.len() >= 21 {
                let alt = layout::type9_one_bit_early(bytes);
                let alt_dec = layout::RefDecoded { mtype: 9, variant: dec.variant, must_be_ok: true, fields: alt };
                if compare(&alt_dec, inner, prop).is_empty() {
                    return Verdict::Known { sig: SIG_TYPE9, expected, observed: observed_s };
                }
            }
            Verdict::Fail { expected, observed: observed_s }
        }
    }
}

/// `messages::parse(bytes)` against the reference.
pub fn check_bytes(prop: Prop, cfg: &'static dyn Config, bytes: &[u8], nt: NonTrivial, rec: &mut Rec) -> Verdict {
    if cfg.name() == "none" && crate::props::c18::decode_exceeds(bytes) {
        // above a fixed capacity the no-allocator build may only reject: a value here would be a
        // truncated one (this is C18's clause; it costs nothing to hold it wherever such input occurs)
        return match cfg.parse_msg(bytes) {
            crate::outcome::PRes::Ok(s) => Verdict::fail("an error: the message exceeds a fixed capacity of the no-allocator build (119 data bytes / 20 text characters), which must reject, never truncate", crate::util::clip(&s, 300)),
            crate::outcome::PRes::Panic(m) => Verdict::fail("an error value", format!("panic: {}", m)),
            crate::outcome::PRes::Err(_) => Verdict::Excluded("above a fixed capacity of the no-allocator build: rejected, as it must be"),
        };
    }
    let obs = cfg.parse_msg(bytes);
    let v = judge(prop, bytes, &obs, nt, rec);
    if matches!(v, Verdict::Pass) && (prop == Prop::C11 || prop == Prop::C04) && bytes.len() >= 21 && matches!(bytes[0] >> 2, 1..=3) {
        return rate_of_turn_value(cfg, bytes);
    }
    v
}

/// "present with the transmitted value": the rate of turn is only observable through its public
/// accessors. Reference (M.1371 / the crate's documented formula): raw in -126..=126 gives
/// (raw / 4.733)^2 degrees per minute, +-127 give no rate; the sign gives the direction.
fn rate_of_turn_value(cfg: &'static dyn Config, bytes: &[u8]) -> Verdict {
    let raw = layout::signed(layout::get_bits(bytes, 42, 8), 8);
    let got = match cfg.rot_probe(bytes) {
        Some(g) => g,
        None => return Verdict::Pass, // not decoded as a position report: judged elsewhere
    };
    if raw == -128 {
        return match got {
            None => Verdict::Pass,
            Some(x) => Verdict::fail("rate_of_turn absent for raw -128", format!("{:?}", x)),
        };
    }
    let (rate, dir) = match got {
        Some(x) => x,
        None => return Verdict::fail(format!("rate_of_turn present for raw {}", raw), "None"),
    };
    let want_dir = if raw == 0 { "None" } else if raw > 0 { "Some(Starboard)" } else { "Some(Port)" };
    if dir != want_dir {
        return Verdict::fail(format!("rate_of_turn.direction() = {} for raw {}", want_dir, raw), dir);
    }
    if raw.abs() == 127 {
        if rate.is_some() {
            return Verdict::fail(format!("rate_of_turn.rate() = None for raw {} (turning faster than the scale)", raw), format!("{:?}", rate));
        }
    } else {
        let exact = (raw as f64 / 4.733) * (raw as f64 / 4.733);
        match rate {
            Some(r) if ((r as f64) - exact).abs() <= 4.0 * layout::ulp_f32(exact) + 1e-12 => {}
            other => return Verdict::fail(format!("rate_of_turn.rate() = Some({:.6}) for raw {}", exact, raw), format!("{:?}", other)),
        }
    }
    Verdict::Pass
}

/// The long way round: armoured characters -> sentence(s) -> `AisParser::parse(.., true)`;
/// checks that decoding starts at bit 0 of the unarmoured buffer and that padding reads as zero.
pub fn check_sentence_path(prop: Prop, cfg: &'static dyn Config, chars: &[u8], fill: u8, cuts: &[usize], nt: NonTrivial, rec: &mut Rec) -> Verdict {
    if chars.is_empty() || chars.iter().any(|&c| c == b',' || c == b'*') {
        return Verdict::Excluded("sentence path needs a non-empty payload field without ',' or '*'");
    }
    if cfg.name() == "none" && chars.len() > 384 {
        return Verdict::Excluded("payload above the no-allocator capacity (C18's business)");
    }
    let bytes = match armor::unarmor(chars, fill as usize) {
        Some(b) => b,
        None => return Verdict::Excluded("payload characters outside the armouring alphabet"),
    };
    if cfg.name() == "none" && crate::props::c18::decode_exceeds(&bytes) {
        return Verdict::Excluded("above a fixed capacity of the no-allocator build (C18 decides those)");
    }
    let mut p = cfg.new_parser();
    let mut last = None;
    if cuts.is_empty() {
        let l = build::line(1, 1, None, b"A", chars, fill as u32);
        last = Some(p.parse(&l, true));
    } else {
        let pieces = build::split_at(chars, cuts);
        let n = pieces.len() as u32;
        for (i, piece) in pieces.iter().enumerate() {
            let k = i as u32 + 1;
            let f = if k == n { fill as u32 } else { 0 };
            let l = build::line(n, k, Some(3), b"B", piece, f);
            let o = p.parse(&l, true);
            if k < n {
                if !matches!(o, Outcome::Incomplete(_)) {
                    return Verdict::fail(format!("Incomplete for fragment {} of {}", k, n), o.brief());
                }
            } else {
                last = Some(o);
            }
        }
    }
    let obs: PRes<String> = match last.unwrap() {
        Outcome::Complete(s) => match s.message {
            Some(m) => PRes::Ok(m),
            None => return Verdict::fail("a decoded message (decode = true)", "Complete with message = None"),
        },
        Outcome::Incomplete(s) => return Verdict::fail("Complete", format!("Incomplete({:?})", s.fragment_number)),
        Outcome::Err(e) => PRes::Err(e),
        Outcome::Panic(m) => PRes::Panic(m),
    };
    rec.class("via-sentence-path");
    judge(prop, &bytes, &obs, nt, rec)
}

/// The payload travels in ONE sentence on a parser that has already processed `prefix`. What the
/// message decodes to is a function of that sentence's own payload (the first six bits decide the
/// kind, every field is the bits at its position), whatever the parser saw before. The carrier is
/// either an unfragmented sentence, or one whose numbering the parser accepts as closing without an
/// open group to continue (k = 1 with n = 0): if such a line is accepted as Complete, its decoded
/// message must still be its own payload's.
pub fn check_after_history(prop: Prop, cfg: &'static dyn Config, prefix: &[crate::engine::Line], n: u8, k: u8, id: Option<u8>, chars: &[u8], fill: u8, nt: NonTrivial, rec: &mut Rec) -> Verdict {
    if chars.is_empty() || chars.iter().any(|&c| c == b',' || c == b'*') {
        return Verdict::Excluded("sentence path needs a non-empty payload field without ',' or '*'");
    }
    if k != 1 || n >= 2 {
        return Verdict::Excluded("carrier numbering must be k = 1 with n = 1 or n = 0");
    }
    if cfg.name() == "none" && (chars.len() > 384 || crate::props::hist::exceeds_noalloc_capacity(prefix)) {
        return Verdict::Excluded("payload above the no-allocator capacity (C18's business)");
    }
    let bytes = match armor::unarmor(chars, fill as usize) {
        Some(b) => b,
        None => return Verdict::Excluded("payload characters outside the armouring alphabet"),
    };
    if cfg.name() == "none" && crate::props::c18::decode_exceeds(&bytes) {
        return Verdict::Excluded("above a fixed capacity of the no-allocator build (C18 decides those)");
    }
    let mut p = cfg.new_parser();
    for l in prefix {
        if let Outcome::Panic(m) = p.parse(&l.bytes, l.decode) {
            return Verdict::fail("a result or an error value for every line of the prefix", format!("panic: {}", m));
        }
    }
    let line = build::line(n as u32, k as u32, id.map(|x| x as u32), b"A", chars, fill as u32);
    let out = p.parse(&line, true);
    rec.class(if n == 1 { "after-history:unfragmented" } else { "after-history:closing-line-without-group" });
    let obs: PRes<String> = match out {
        Outcome::Complete(s) => {
            // a line with fragment number 1 continues nothing: whatever the parser held, the message
            // handed out with this line must be the decoding of this line's own payload (judged below)
            if s.data != chars {
                rec.class("after-history:data-differs-from-own-payload");
            }
            match s.message {
                Some(m) => PRes::Ok(m),
                None => return Verdict::fail("a decoded message (decode = true)", "Complete with message = None"),
            }
        }
        Outcome::Incomplete(_) => return Verdict::Excluded("the carrier line was taken as a non-final fragment"),
        Outcome::Err(e) => {
            if n != 1 {
                return Verdict::Excluded("the carrier line was rejected by the sequencing rules");
            }
            PRes::Err(e)
        }
        Outcome::Panic(m) => PRes::Panic(m),
    };
    judge(prop, &bytes, &obs, nt, rec)
}

/// Dispatch on the input kinds the payload-level properties use.
pub fn check_input(prop: Prop, cfg: &'static dyn Config, input: &Input, nt: NonTrivial, rec: &mut Rec) -> Verdict {
    match input {
        Input::Payload { bytes } => check_bytes(prop, cfg, bytes, nt, rec),
        Input::SentPayload { chars, fill, cuts } => check_sentence_path(prop, cfg, chars, *fill, cuts, nt, rec),
        Input::SentAfter { prefix, n, k, id, chars, fill } => check_after_history(prop, cfg, prefix, *n, *k, *id, chars, *fill, nt, rec),
        _ => crate::engine::infra_error("payload-level check got an input of the wrong kind"),
    }
}
