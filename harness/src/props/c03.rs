//! C03 — unarmouring is the exact 6-bit unpacking with fill bits cleared.

use crate::adapter::{configs, Config, STD};
use crate::engine::{Ctx, Input, Rec, Tier, Verdict};
use crate::outcome::PRes;
use crate::refmodel::armor::{self, ALPHABET};
use crate::util::{esc, Mix};
use proptest::prelude::*;
use serde_json::json;

fn judge(cfg: &'static dyn Config, data: &[u8], fill: usize) -> Result<(), (String, String)> {
    let want = armor::unarmor(data, fill);
    let got = cfg.unarmor(data, fill);
    match (&want, &got) {
        (_, PRes::Panic(m)) => Err(("bytes or an error value".into(), format!("panic: {}", m))),
        (Some(w), PRes::Ok(g)) if w == g => Ok(()),
        (Some(w), PRes::Ok(g)) => Err((format!("{} byte(s): {}", w.len(), crate::util::clip(&crate::util::hex(w), 120)), format!("{} byte(s): {}", g.len(), crate::util::clip(&crate::util::hex(g), 120)))),
        (Some(w), PRes::Err(e)) => Err((format!("Ok({} bytes): every character is in the alphabet", w.len()), format!("Err({:?})", e))),
        (None, PRes::Err(_)) => Ok(()),
        (None, PRes::Ok(g)) => Err(("an error: the string contains a byte outside '0'..='W' / '`'..='w'".into(), format!("Ok({})", crate::util::clip(&crate::util::hex(g), 120)))),
    }
}

pub fn check(_sub: &str, cfg: &'static dyn Config, input: &Input, rec: &mut Rec) -> Verdict {
    let (data, fill) = match input {
        Input::Unarmor { data, fill } => (data, *fill),
        _ => crate::engine::infra_error("C03 expects an unarmor input"),
    };
    if cfg.name() == "none" && data.len() > 512 {
        return Verdict::Excluded("output above the no-allocator capacity (C18)");
    }
    rec.evals += 1;
    let legal = data.iter().all(|c| armor::sixbit(*c).is_some());
    rec.nontrivial = !data.is_empty();
    rec.class(if legal { "alphabet-only" } else { "has-illegal-byte" });
    let r = judge(cfg, data, fill);
    if rec.want_note {
        rec.note = Some(format!("unarmor({:?}, {}) -> {}", crate::util::clip(&esc(data), 80), fill, cfg.unarmor(data, fill).brief()));
    }
    match r {
        Ok(()) => Verdict::Pass,
        Err((e, o)) => Verdict::Fail { expected: e, observed: o },
    }
}

/// bulk path for the big enumerations: no per-case bookkeeping, distinct by construction
fn bulk(ctx: &mut Ctx, sub: &str, cases: impl Iterator<Item = (Vec<u8>, usize)>) {
    bulk_cfg(ctx, sub, &STD, cases)
}

fn bulk_cfg(ctx: &mut Ctx, sub: &str, cfg: &'static dyn Config, cases: impl Iterator<Item = (Vec<u8>, usize)>) {
    let mut n = 0u64;
    let mut nt = 0u64;
    for (data, fill) in cases {
        if cfg.name() == "none" && data.len() > 512 {
            continue;
        }
        n += 1;
        if !data.is_empty() {
            nt += 1;
        }
        if judge(cfg, &data, fill).is_err() {
            // report through the ordinary path so that the replay file and texts are produced
            ctx.sweep_case(sub, cfg, &Input::Unarmor { data, fill }, check);
            break;
        }
    }
    let st = ctx.subs.entry(sub.to_string()).or_default();
    st.cases += n;
    st.evals += n;
    ctx.cases += n;
    ctx.evals += n;
    *ctx.per_config.entry(cfg.name().into()).or_default() += n;
    if cfg.name() == "std" {
        ctx.nontrivial_by_construction += nt;
    }
}

pub fn run(ctx: &mut Ctx) {
    ctx.rule = "messages::unarmor against a bit-vector reference: exhaustively all strings of length 0..2 over all 256 byte values x fill 0..5; for every length 1..16 and every position all 256 byte values there with random alphabet characters elsewhere x fill 0..5 (the function is periodic in position with period 4); random alphabet strings up to 1100 characters; strings with exactly one illegal byte. Thorough adds all 64^3 alphabet strings x 6 fills and all 256^3 strings x fill {0, 5}. Expected: exactly ceil(6n/8) bytes, bit for bit, last fill of the 6n bits and pad bits zero; any byte outside the alphabet => error. Non-trivial = n >= 1; distinct by (string, fill), by construction in the enumerations.".into();
    ctx.assumptions = vec!["std build; the 384-byte output capacity of the no-allocator build is C18's".into()];
    ctx.replay_regressions(check);

    // exhaustive short strings
    let mut v: Vec<(Vec<u8>, usize)> = Vec::new();
    for fill in 0..6 {
        v.push((vec![], fill));
        for a in 0..=255u8 {
            v.push((vec![a], fill));
        }
    }
    bulk(ctx, "all-strings-len-0-2", v.into_iter());
    bulk(
        ctx,
        "all-strings-len-0-2",
        (0..6usize).flat_map(|fill| (0..=255u8).flat_map(move |a| (0..=255u8).map(move |b| (vec![a, b], fill)))),
    );
    ctx.mark_exhaustive("all-strings-len-0-2", "all byte strings of length 0, 1, 2 x fill 0..=5 (394,758 calls)");
    ctx.samples.push(json!({"sub": "all-strings-len-0-2", "example": "unarmor(b\"w0\", 5) -> expected [0xfc, 0x00]"}));

    // every byte value at every position of strings up to length 16
    let mut mix = Mix::new(ctx.seed, 3);
    let reps = ctx.tier.pick(2, 30);
    let mut cases: Vec<(Vec<u8>, usize)> = Vec::new();
    for len in 1..=16usize {
        for pos in 0..len {
            for _ in 0..reps {
                let base: Vec<u8> = mix.bytes(len).iter().map(|b| ALPHABET[(*b & 63) as usize]).collect();
                for val in 0..=255u8 {
                    for fill in 0..6 {
                        let mut d = base.clone();
                        d[pos] = val;
                        cases.push((d, fill));
                    }
                }
            }
        }
    }
    bulk(ctx, "every-byte-at-every-position", cases.into_iter());
    ctx.mark_exhaustive("every-byte-at-every-position", "lengths 1..=16 x every position x all 256 byte values x fill 0..=5, random alphabet characters elsewhere");

    // repetitive strings: constant strings and strings made of a repeated block of 1..8 characters, at
    // every length up to 48 and every fill - an implementation that recognises "the last group" (or any
    // position) by content instead of by index is wrong exactly here
    let mut cases: Vec<(Vec<u8>, usize)> = Vec::new();
    for c in 0..64usize {
        for len in 1..=24usize {
            for fill in 0..6 {
                cases.push((vec![ALPHABET[c]; len], fill));
            }
        }
    }
    let blocks = ctx.tier.pick(6, 60);
    for period in 1..=8usize {
        for _ in 0..blocks {
            let block: Vec<u8> = mix.bytes(period).iter().map(|b| ALPHABET[(*b & 63) as usize]).collect();
            for len in 1..=48usize {
                for fill in 0..6 {
                    cases.push(((0..len).map(|i| block[i % period]).collect(), fill));
                }
            }
        }
    }
    // every byte value at every position of a *constant* string (an implementation that skips or
    // batches runs of one character must still validate every byte), and zero-padded tails: a random
    // prefix followed by 1..=12 '0' characters (what the padding of a real message looks like)
    for base in [b'0', b'@', b'w', b'P'] {
        for len in [1usize, 2, 3, 4, 5, 7, 8, 9, 12, 16, 17, 24, 25] {
            for pos in 0..len {
                for val in 0..=255u8 {
                    let mut d = vec![base; len];
                    d[pos] = val;
                    cases.push((d, (pos + val as usize) % 6));
                }
            }
        }
    }
    for _ in 0..blocks * 4 {
        let plen = 1 + (mix.next() % 9) as usize;
        let prefix: Vec<u8> = mix.bytes(plen).iter().map(|b| ALPHABET[(*b & 63) as usize]).collect();
        for zeros in 1..=12usize {
            for fill in 0..6 {
                let mut d = prefix.clone();
                d.extend(std::iter::repeat(b'0').take(zeros));
                cases.push((d, fill));
            }
        }
    }
    bulk(ctx, "repetitive-strings", cases.into_iter());
    ctx.mark_exhaustive("repetitive-strings", "constant strings of each of the 64 characters (lengths 1..=24); strings of a repeated random block of 1..=8 characters (lengths 1..=48) x fill 0..=5; every byte value at every position of constant strings of '0', '@', 'w', 'P' (13 lengths up to 25); random prefixes followed by 1..=12 '0' characters x fill 0..=5");

    // the other two builds: every byte at every position of short strings, and the lengths around the
    // 384-byte output capacity of the no-allocator build (512 characters still fit)
    for cfg in configs().into_iter().skip(1) {
        let mut cases: Vec<(Vec<u8>, usize)> = Vec::new();
        for len in 1..=9usize {
            for pos in 0..len {
                let base: Vec<u8> = mix.bytes(len).iter().map(|b| ALPHABET[(*b & 63) as usize]).collect();
                for val in 0..=255u8 {
                    for fill in 0..6 {
                        let mut d = base.clone();
                        d[pos] = val;
                        cases.push((d, fill));
                    }
                }
            }
        }
        for len in [0usize, 100, 383, 384, 385, 508, 509, 510, 511, 512] {
            for fill in 0..6 {
                cases.push((mix.bytes(len).iter().map(|b| ALPHABET[(*b & 63) as usize]).collect(), fill));
            }
        }
        bulk_cfg(ctx, "other-builds", cfg, cases.into_iter());
    }
    ctx.mark_exhaustive("other-builds", "alloc and no-allocator builds: lengths 1..=9 x every position x all 256 byte values x fill 0..=5, and random alphabet strings of 0, 100, 383..385 and 508..512 characters");

    // generated: long alphabet strings, strings with one illegal byte, arbitrary bytes
    let n = ctx.tier.pick(100_000, 600_000);
    let alpha = (proptest::collection::vec(0usize..64, 0..1100), 0usize..6).prop_map(|(v, fill)| Input::Unarmor { data: v.into_iter().map(|i| ALPHABET[i]).collect(), fill });
    ctx.run_proptest("random-alphabet-strings", &STD, n, alpha, check);
    let one_bad = (proptest::collection::vec(0usize..64, 1..300), any::<u16>(), any::<u8>(), 0usize..6).prop_map(|(v, pos, bad, fill)| {
        let mut data: Vec<u8> = v.into_iter().map(|i| ALPHABET[i]).collect();
        let i = (pos as usize * data.len()) >> 16;
        // map into the complement of the alphabet: 0..=47, 88..=95, 120..=255
        let illegal: Vec<u8> = (0..=255u8).filter(|c| armor::sixbit(*c).is_none()).collect();
        data[i] = illegal[(bad as usize * illegal.len()) >> 8];
        Input::Unarmor { data, fill }
    });
    ctx.run_proptest("one-illegal-byte", &STD, n, one_bad, check);
    let raw = (proptest::collection::vec(any::<u8>(), 0..64), 0usize..6).prop_map(|(data, fill)| Input::Unarmor { data, fill });
    ctx.run_proptest("arbitrary-bytes", &STD, n / 2, raw, check);

    if ctx.tier == Tier::Thorough {
        bulk(
            ctx,
            "all-alphabet-strings-len-3",
            (0..6usize).flat_map(|fill| (0..64usize * 64 * 64).map(move |c| (vec![ALPHABET[c & 63], ALPHABET[(c >> 6) & 63], ALPHABET[c >> 12]], fill))),
        );
        ctx.mark_exhaustive("all-alphabet-strings-len-3", "all 64^3 alphabet strings x fill 0..=5");
        for len4 in [4usize, 5] {
            // alignment classes of the remaining two phases, alphabet only, last three characters exhaustive
            let base: Vec<u8> = mix.bytes(len4 - 3).iter().map(|b| ALPHABET[(*b & 63) as usize]).collect();
            let b2 = base.clone();
            bulk(
                ctx,
                "all-alphabet-tails-len-4-5",
                (0..6usize).flat_map(move |fill| {
                    let b3 = b2.clone();
                    (0..64usize * 64 * 64).map(move |c| {
                        let mut d = b3.clone();
                        d.extend([ALPHABET[c & 63], ALPHABET[(c >> 6) & 63], ALPHABET[c >> 12]]);
                        (d, fill)
                    })
                }),
            );
        }
        ctx.mark_exhaustive("all-alphabet-tails-len-4-5", "strings of length 4 and 5 with all 64^3 final triples x fill 0..=5");
        let jobs: Vec<u8> = (0..=255u8).collect();
        let res = crate::util::par_map(jobs, |a| {
            let mut n = 0u64;
            for b in 0..=255u8 {
                for c in 0..=255u8 {
                    for fill in [0usize, 5] {
                        n += 1;
                        let d = [a, b, c];
                        if judge(&STD, &d, fill).is_err() {
                            return (n, Some((d.to_vec(), fill)));
                        }
                    }
                }
            }
            (n, None)
        });
        let sub = "all-strings-len-3";
        let mut total = 0;
        for (n, bad) in res {
            total += n;
            if let Some((data, fill)) = bad {
                ctx.sweep_case(sub, &STD, &Input::Unarmor { data, fill }, check);
            }
        }
        let st = ctx.subs.entry(sub.to_string()).or_default();
        st.cases += total;
        st.evals += total;
        ctx.cases += total;
        ctx.evals += total;
        ctx.nontrivial_by_construction += total;
        ctx.mark_exhaustive(sub, "all 256^3 byte strings of length 3 x fill {0, 5}");
    }
}
