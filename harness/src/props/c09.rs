//! C09 — the decoded variant follows the 6-bit type; unsupported types are errors.

use crate::adapter::{configs, Config, STD};
use crate::engine::{Ctx, Input, Rec, Verdict};
use crate::gen::payload::{payload_inputs, LenMode};
use crate::props::payload::check_input;
use crate::refmodel::layout::{self, set_bits, Prop, RefMsg, SUPPORTED};
use crate::util::Mix;

/// non-trivial: a supported type at or above its mandatory length, or an unsupported type with
/// at least one byte
fn nontrivial(r: &RefMsg, bytes: &[u8]) -> bool {
    match r {
        RefMsg::Msg(_) => true,
        RefMsg::Unsupported(_) => !bytes.is_empty(),
        _ => false,
    }
}

pub fn check(_sub: &str, cfg: &'static dyn Config, input: &Input, rec: &mut Rec) -> Verdict {
    check_input(Prop::C09, cfg, input, nontrivial, rec)
}

pub fn run(ctx: &mut Ctx) {
    ctx.rule = "all 64 values of the first six bits x every byte length 0..=60 (and the specified lengths of each layout) x {zeros, ones, random} through messages::parse: Ok implies the variant named for those bits and message_type equal to them; the 41 unsupported values are errors at every length; a supported type at a specified length decodes. Non-trivial = supported type at or above its mandatory length, or unsupported type with >= 1 byte; distinct by bytes.".into();
    ctx.replay_regressions(check);
    let mut mix = Mix::new(ctx.seed, 9);
    let reps = ctx.tier.pick(3, 40);
    for t in 0..64u8 {
        let mut lens: Vec<usize> = (0..=60).collect();
        lens.extend(layout::standard_lengths(t));
        lens.extend([61, 64, 100, 126, 127, 140, 200]);
        for len in lens {
            for kind in 0..(2 + reps) {
                let mut b = match kind {
                    0 => vec![0u8; len],
                    1 => vec![0xff; len],
                    _ => mix.bytes(len),
                };
                if len > 0 {
                    set_bits(&mut b, 0, 6, t as u64);
                }
                if ctx.sub_failed("type-by-length") {
                    return;
                }
                let input = Input::Payload { bytes: b };
                for cfg in configs() {
                    ctx.sweep_case("type-by-length", cfg, &input, check);
                }
            }
        }
    }
    ctx.mark_exhaustive("type-by-length", "64 type values x byte lengths 0..=60 plus specified and long lengths x {zeros, ones, random contents}");
    let n = ctx.tier.pick(100_000, 600_000);
    ctx.run_proptest("random-fields", &STD, n, payload_inputs(SUPPORTED.to_vec(), LenMode::Standard, Prop::C09, 6, 0.10), check);
    // "by the first six bits alone": the contents must not matter, least of all the values other properties
    // single out (sentinels, enumerated codes, list lengths) - the same generator with their emphasis
    for (name, focus) in [("random-fields-c04-emphasis", Prop::C04), ("random-fields-c11-emphasis", Prop::C11), ("random-fields-c12-emphasis", Prop::C12), ("random-fields-c14-emphasis", Prop::C14)] {
        ctx.run_proptest(name, &STD, n / 4, payload_inputs(SUPPORTED.to_vec(), LenMode::Standard, focus, 6, 0.05), check);
    }
    ctx.run_proptest("random-any-length", &STD, n / 2, payload_inputs((0..64).collect(), LenMode::Any, Prop::C09, 3, 0.05), check);
    // the same generated payloads, a tenth of them through the sentence path (fragments included), on the
    // alloc and no-allocator builds
    for cfg in crate::adapter::configs().into_iter().skip(1) {
        let n_other = ctx.tier.pick(20_000, 200_000);
        ctx.run_proptest("random-assignments", cfg, n_other, crate::gen::payload::payload_inputs(SUPPORTED.to_vec(), crate::gen::payload::LenMode::Standard, Prop::C09, 8, 0.15), check);
    }
    // every field inverted as a whole and bit by bit against all-zero and all-one backgrounds
    for &t in crate::refmodel::layout::SUPPORTED.iter() {
        for len in crate::refmodel::layout::standard_lengths(t) {
            let mut inputs = Vec::new();
            crate::gen::payload::field_sweep(t, len, |b| inputs.push(b));
            for b in inputs {
                ctx.sweep_case("field-sweep", &crate::adapter::STD, &Input::Payload { bytes: b }, check);
            }
        }
    }
    ctx.mark_exhaustive("field-sweep", "every field of every specified shape x {inverted whole, each single bit inverted} x {all-zero, all-one background}");
    // every pair of fields at their special values (see gen::payload::pairwise_specials)
    {
        let mut mix = crate::util::Mix::new(ctx.seed, 0xa11);
        let reps = ctx.tier.pick(1, 6);
        for (t, len, part) in crate::gen::payload::pairwise_shapes() {
            
            for base in 0..4u8 {
                crate::gen::payload::pairwise_specials(t, len, part, if base == 0 { reps } else { 1 }, base, &mut mix, |b| {
                    ctx.sweep_case("pairwise-special-values", &crate::adapter::STD, &Input::Payload { bytes: b }, check);
                });
            }
        }
        ctx.mark_exhaustive("pairwise-special-values", "every pair of fields of every layout (longest specified shape, and the shortest for the variable ones) x each field's special values (0, 1, max, max-1, 'not available' codes, MMSI station classes, time-stamp codes 60..63; all values of fields up to 3 bits), against three backgrounds: the other bits random, all zero, and 'everything unavailable'");
    }
    // decoding after an arbitrary history, in an unfragmented sentence or in a closing line without a group
    {
        let n_after = ctx.tier.pick(24_000, 300_000);
        ctx.run_proptest("after-history", &crate::adapter::STD, n_after, crate::gen::payload::payload_inputs_after(SUPPORTED.to_vec(), Prop::C09), check);
    }
}
