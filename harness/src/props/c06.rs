//! C06 — only a complete in-order group ever produces a multi-fragment message.

use crate::adapter::{configs, Config, STD};
use crate::engine::{Ctx, Input, Line, Rec, Tier, Verdict};
use crate::gen::sentence::{adversarial_events, events_to_input};
use crate::props::hist::{judge_history, render_steps, SEQ};
use crate::refmodel::armor::ALPHABET;
use crate::refmodel::build::{self, Cks, Spec};
use crate::refmodel::seq::Pred;
use proptest::prelude::*;

pub fn check(_sub: &str, cfg: &'static dyn Config, input: &Input, rec: &mut Rec) -> Verdict {
    let lines = match input {
        Input::History { lines } => lines,
        _ => crate::engine::infra_error("C06 expects a history"),
    };
    let (steps, fail) = judge_history(cfg, lines, SEQ);
    rec.evals += lines.len() as u64;
    rec.nontrivial = steps.iter().any(|(_, i)| i.gate_pass && i.k >= 2);
    for (_, i) in &steps {
        match &i.pred {
            Some(Pred::Reject(_)) => rec.class("line-rejected-by-sequencing"),
            Some(Pred::Deliver(_)) => rec.class("group-delivered"),
            Some(Pred::Unspecified(_)) => rec.class("line-unspecified-by-the-model"),
            _ => {}
        }
    }
    if rec.want_note {
        rec.note = Some(render_steps(lines, &steps));
    }
    match fail {
        Some(f) => Verdict::fail(format!("line {}: {}", f.line_no, f.expected), f.observed),
        None => Verdict::Pass,
    }
}

/// the 17 symbols of the exhaustive part; the payload token is unique per position
fn symbol_line(sym: usize, pos: usize) -> Line {
    let tok = [ALPHABET[1 + pos], ALPHABET[20 + sym]];
    let ids = [None, Some(1u32), Some(2)];
    let nk = [(2u32, 1u32), (2, 2), (3, 1), (3, 2), (3, 3)];
    match sym {
        0..=14 => {
            let (n, k) = nk[sym % 5];
            Line::new(build::line(n, k, ids[sym / 5], b"A", &tok, 0), false)
        }
        15 => Line::new(build::line(1, 1, None, b"A", &tok, 0), false),
        _ => {
            let mut s = Spec::simple(2, 2, Some(1), b"A", &tok, 0);
            s.cks = Cks::Delta(1);
            Line::new(s.render(), false)
        }
    }
}

fn exhaustive(ctx: &mut Ctx, cfg: &'static dyn Config, max_len: usize) {
    let sub = "exhaustive-histories";
    for len in 1..=max_len {
        let total = 17usize.pow(len as u32);
        for code in 0..total {
            let mut c = code;
            let mut lines = Vec::with_capacity(len);
            for pos in 0..len {
                lines.push(symbol_line(c % 17, pos));
                c /= 17;
            }
            if ctx.sub_failed(sub) {
                return;
            }
            if !ctx.sweep_case(sub, cfg, &Input::History { lines: lines.clone() }, check) {
                // minimise by greedy line removal before reporting
                let v = ctx.violations.pop().unwrap();
                let mut cur = lines;
                let mut i = 0;
                while i < cur.len() && cur.len() > 1 {
                    let mut cand = cur.clone();
                    cand.remove(i);
                    let mut r = Rec::default();
                    if matches!(check(sub, cfg, &Input::History { lines: cand.clone() }, &mut r), Verdict::Fail { .. }) {
                        cur = cand;
                    } else {
                        i += 1;
                    }
                }
                let mut r = Rec::default();
                if let Verdict::Fail { expected, observed } = check(sub, cfg, &Input::History { lines: cur.clone() }, &mut r) {
                    ctx.record_violation(sub, cfg, Input::History { lines: cur }, expected, observed);
                } else {
                    ctx.violations.push(v);
                }
            }
        }
    }
    ctx.mark_exhaustive(sub, &format!("all histories of length 1..={} over 17 symbols: ids {{absent,1,2}} x (n,k) in {{(2,1),(2,2),(3,1),(3,2),(3,3)}}, one unfragmented sentence, one bad-checksum line; payload token unique per position", max_len));
}

pub fn run(ctx: &mut Ctx) {
    ctx.rule = "model-based: (a) every history up to length 4 (quick) / 5 (thorough) over a 17-symbol alphabet of validly numbered fragments of three ids, an unfragmented sentence and a bad-checksum line; (b) random histories of up to 40 lines with several interleaved groups (n <= 9, ids 0..255 or absent), loss, duplication, reordering, id reuse after delivery and noise. After every line the parser must agree with the reassembly model: a fragment k >= 2 is accepted only as the direct continuation of an open, undelivered group with the same id; a delivered payload is the in-order concatenation of that group's fragments. Non-trivial = the history contains at least one sentence with k >= 2 that passes the checksum gate; distinct by the whole history.".into();
    ctx.assumptions = vec![
        "a continuation whose fragment count differs from the opening fragment's is not pinned by the statement: either outcome is accepted and the model follows the implementation".into(),
        "sentences that are not validly numbered (k = 0, n = 0, k > n) are outside this property's quantifier (C01 covers them)".into(),
    ];
    ctx.replay_regressions(check);
    let l = ctx.tier.pick(4, 5);
    exhaustive(ctx, &STD, l);
    let n = ctx.tier.pick(120_000, 1_000_000);
    let strat = || adversarial_events(40).prop_map(|e| events_to_input(&e));
    ctx.run_proptest("random-histories", &STD, n, strat(), check);
    // groups of 10..40 fragments with probe lines aimed at the position reached (see the generator)
    let long = || crate::gen::sentence::long_group_events().prop_map(|e| events_to_input(&e));
    for cfg in configs() {
        ctx.run_proptest("long-groups-with-probes", cfg, n / 6, long(), check);
    }
    ctx.run_proptest("capacity-groups", &crate::adapter::NONE, n / 4, crate::props::c18::capacity_histories(), check);
    if ctx.tier == Tier::Thorough {
        for cfg in configs().into_iter().skip(1) {
            exhaustive(ctx, cfg, 4);
            ctx.run_proptest("random-histories", cfg, n / 4, strat(), check);
        }
    } else {
        for cfg in configs().into_iter().skip(1) {
            exhaustive(ctx, cfg, 3);
            ctx.run_proptest("random-histories", cfg, n / 5, strat(), check);
        }
    }
}
