//! C20 — the command-line tool survives any input stream.

use crate::adapter::{Config, STD};
use crate::engine::{infra_error, Ctx, Input, Rec, Verdict};
use crate::gen::sentence::{adversarial_events, malformed_line, render_ev, wellformed_spec};
use crate::outcome::Outcome;
use crate::refmodel::armor;
use crate::refmodel::build::{self, Cks, Spec};
use crate::refmodel::layout::set_bits;
use crate::util::esc;
use proptest::prelude::*;
use std::io::{Read, Write};
use std::process::{Command, Stdio};
use std::time::{Duration, Instant};

pub const CLI: &str = "/verif/target/cli/debug/aisparser";

pub struct Run {
    pub status: Option<i32>,
    pub signal: bool,
    pub stdout: Vec<u8>,
    pub stderr: Vec<u8>,
    /// the tool was still running after 60 s and, started again on the same input, after 180 s
    pub hung: bool,
}

/// Non-termination is a violation of C20 ("to the end ... exits successfully"), but wall-clock time is a
/// poor oracle: the limit is four to five orders of magnitude above what the largest generated stream
/// needs, and a stream is only called hanging after a second, longer attempt on an otherwise idle pipe.
pub fn run_cli(input: &[u8]) -> Run {
    use std::sync::atomic::{AtomicBool, Ordering};
    // once one stream has been confirmed to hang the tool, the variants tried while shrinking it get 5 s
    // (still a thousand times what a stream of that size needs); never true on a tree without a hang
    static CONFIRMED: AtomicBool = AtomicBool::new(false);
    if CONFIRMED.load(Ordering::Relaxed) && input.len() < 100_000 {
        return match run_cli_limit(input, 5) {
            Some(r) => r,
            None => Run { status: None, signal: false, stdout: Vec::new(), stderr: Vec::new(), hung: true },
        };
    }
    if let Some(r) = run_cli_limit(input, 60) {
        return r;
    }
    if let Some(r) = run_cli_limit(input, 180) {
        return r;
    }
    CONFIRMED.store(true, Ordering::Relaxed);
    Run { status: None, signal: false, stdout: Vec::new(), stderr: Vec::new(), hung: true }
}

pub const HUNG: &str = "still running 60 s after end of input was sent and, started again on the same stream, after 180 s; killed";

fn run_cli_limit(input: &[u8], limit_s: u64) -> Option<Run> {
    // the wait below has its own limit; the in-process watchdog is for library calls
    crate::engine::watchdog_touch();
    let r = run_cli_limit_inner(input, limit_s);
    crate::engine::watchdog_touch();
    r
}

fn run_cli_limit_inner(input: &[u8], limit_s: u64) -> Option<Run> {
    let mut child = Command::new(CLI)
        .stdin(Stdio::piped())
        .stdout(Stdio::piped())
        .stderr(Stdio::piped())
        .env("RUST_BACKTRACE", "0")
        .spawn()
        .unwrap_or_else(|e| infra_error(&format!("cannot start {}: {} (build it with ./check C20 ...)", CLI, e)));
    let mut stdin = child.stdin.take().unwrap();
    let mut so = child.stdout.take().unwrap();
    let mut se = child.stderr.take().unwrap();
    let data = input.to_vec();
    let w = std::thread::spawn(move || {
        let _ = stdin.write_all(&data);
        // dropping stdin closes the pipe: end of input
    });
    let ro = std::thread::spawn(move || {
        let mut v = Vec::new();
        let _ = so.read_to_end(&mut v);
        v
    });
    let re = std::thread::spawn(move || {
        let mut v = Vec::new();
        let _ = se.read_to_end(&mut v);
        v
    });
    let t0 = Instant::now();
    let status = loop {
        match child.try_wait() {
            Ok(Some(s)) => break s,
            Ok(None) => {
                if t0.elapsed() > Duration::from_secs(limit_s) {
                    let _ = child.kill();
                    let _ = child.wait();
                    let _ = w.join();
                    let _ = ro.join();
                    let _ = re.join();
                    return None;
                }
                crate::engine::watchdog_touch();
                std::thread::sleep(Duration::from_micros(200));
            }
            Err(e) => infra_error(&format!("wait on the CLI failed: {}", e)),
        }
    };
    let _ = w.join();
    let stdout = ro.join().unwrap_or_default();
    let stderr = re.join().unwrap_or_default();
    Some(Run { status: status.code(), signal: status.code().is_none(), stdout, stderr, hung: false })
}

/// the lines `BufRead::split(b'\n')` yields
pub fn split_lines(bytes: &[u8]) -> Vec<&[u8]> {
    let mut v: Vec<&[u8]> = bytes.split(|b| *b == b'\n').collect();
    if v.last().map(|l| l.is_empty()).unwrap_or(false) {
        v.pop();
    }
    v
}

fn records(out: &[u8]) -> Vec<&[u8]> {
    split_lines(out)
}

/// What the tool must print for a stream, predicted WITHOUT the library: sentence shape and checksum by
/// the recogniser, sequencing by the reassembly model, decodability by the reference layouts. None if some
/// line's outcome is not pinned by the models (then only the library-based comparison applies).
fn model_prediction(bytes: &[u8]) -> Option<(usize, usize)> {
    use crate::props::hist::{gate, Gate};
    use crate::refmodel::layout::{refdecode, RefMsg};
    use crate::refmodel::seq::{Model, Pred, Seen};
    let mut model = Model::new();
    let (mut out, mut err) = (0usize, 0usize);
    for l in split_lines(bytes) {
        match gate(l) {
            Gate::Malformed(_) | Gate::BadChecksum(_) => err += 1,
            Gate::StarInField(_) => return None,
            Gate::Pass(f) => {
                let pred = model.predict(f.num_fragments, f.fragment_number, f.message_id, &f.payload);
                let (seen, data): (Seen, Option<Vec<u8>>) = match &pred {
                    Pred::Single => (Seen::Complete, Some(f.payload.clone())),
                    Pred::Deliver(d) => (Seen::Complete, Some(d.clone())),
                    Pred::Open | Pred::Continue => (Seen::Incomplete, None),
                    Pred::Reject(_) => {
                        err += 1;
                        (Seen::Rejected, None)
                    }
                    Pred::Unspecified(_) => return None,
                };
                if let Some(d) = data {
                    // the tool always decodes: a payload that does not decode is a rejected line
                    match armor::unarmor(&d, f.fill as usize) {
                        None => err += 1,
                        Some(b) => match refdecode(&b) {
                            RefMsg::Msg(m) if m.must_be_ok => out += 1,
                            RefMsg::Unsupported(_) | RefMsg::TooShort { .. } => err += 1,
                            _ => return None,
                        },
                    }
                }
                model.commit(&pred, f.num_fragments, f.fragment_number, f.message_id, &f.payload, seen);
            }
        }
    }
    Some((out, err))
}

fn check_model_predicted(bytes: &[u8], rec: &mut Rec) -> Verdict {
    let (want_out, want_err) = match model_prediction(bytes) {
        Some(x) => x,
        None => return Verdict::Excluded("a line's outcome is not pinned by the reference models"),
    };
    rec.nontrivial = want_out > 0;
    rec.class("predicted-by-the-reference-models");
    let r = run_cli(bytes);
    rec.evals += 1;
    let tail = |v: &[u8]| crate::util::clip(&esc(&v[v.len().saturating_sub(300)..]), 400);
    if r.hung {
        return Verdict::fail("the tool reaches the end of its input and exits", HUNG.to_string());
    }
    if r.signal || r.status != Some(0) {
        return Verdict::fail("exit status 0 at end of input", format!("exit {:?}; stderr tail: {}", r.status, tail(&r.stderr)));
    }
    let (got_out, got_err) = (records(&r.stdout).len(), records(&r.stderr).len());
    if rec.want_note {
        rec.note = Some(format!("reference models predict {} stdout / {} stderr record(s); the tool printed {} / {}", want_out, want_err, got_out, got_err));
    }
    if got_out != want_out {
        return Verdict::fail(format!("{} record(s) on stdout: one per line that completes a decodable message, as the reference models (not the library) predict", want_out), format!("{} record(s); stdout tail: {}", got_out, tail(&r.stdout)));
    }
    if got_err != want_err {
        return Verdict::fail(format!("{} record(s) on stderr: one per rejected line, as the reference models predict", want_err), format!("{} record(s); stderr tail: {}", got_err, tail(&r.stderr)));
    }
    Verdict::Pass
}

pub fn check(sub: &str, _cfg: &'static dyn Config, input: &Input, rec: &mut Rec) -> Verdict {
    let bytes = match input {
        Input::Stream { bytes } => bytes,
        _ => infra_error("C20 expects a stream"),
    };
    if sub == "model-predicted-streams" {
        return check_model_predicted(bytes, rec);
    }
    // prediction: the library (std build), line by line, on one parser
    let lines = split_lines(bytes);
    let mut p = STD.new_parser();
    let mut want_out: Vec<String> = Vec::new();
    let mut want_err = 0usize;
    let mut non_utf8 = false;
    let mut groups = 0;
    for l in &lines {
        if std::str::from_utf8(l).is_err() {
            non_utf8 = true;
        }
        match p.parse(l, true) {
            Outcome::Complete(s) => {
                if s.num_fragments > 1 {
                    groups += 1;
                }
                want_out.push(format!("Some({})", s.message.unwrap_or_default()));
            }
            Outcome::Incomplete(_) => {}
            Outcome::Err(_) => want_err += 1,
            Outcome::Panic(m) => {
                // a library panic is C01's finding; for the tool it means the stream is lost
                return Verdict::fail(
                    format!("every line of the stream is handled (line {:?})", crate::util::clip(&esc(l), 100)),
                    format!("the library panics on it: {}", m),
                );
            }
        }
    }
    rec.nontrivial = non_utf8 || groups > 0;
    if non_utf8 {
        rec.class("has-non-utf8-line");
    }
    if groups > 0 {
        rec.class("has-completed-fragment-group");
    }
    if lines.iter().any(|l| l.is_empty()) {
        rec.class("has-empty-line");
    }
    if !bytes.is_empty() && *bytes.last().unwrap() != b'\n' {
        rec.class("no-final-newline");
    }
    let r = run_cli(bytes);
    rec.evals += 1;
    if r.hung {
        return Verdict::fail("the tool reaches the end of its input and exits", HUNG.to_string());
    }
    let out_recs = records(&r.stdout);
    let err_recs = records(&r.stderr);
    if rec.want_note {
        rec.note = Some(format!(
            "{} line(s) on stdin ({} bytes): expected {} stdout record(s), {} stderr record(s); got {} / {}, exit {:?}",
            lines.len(),
            bytes.len(),
            want_out.len(),
            want_err,
            out_recs.len(),
            err_recs.len(),
            r.status
        ));
    }
    let tail = |v: &[u8]| crate::util::clip(&esc(&v[v.len().saturating_sub(300)..]), 400);
    if r.signal || r.status != Some(0) {
        return Verdict::fail(
            "exit status 0 at end of input",
            format!("exit {:?}{}; stderr tail: {}", r.status, if r.signal { " (killed by a signal)" } else { "" }, tail(&r.stderr)),
        );
    }
    if out_recs.len() != want_out.len() {
        return Verdict::fail(format!("{} record(s) on stdout (one per line that completes a message)", want_out.len()), format!("{} record(s); stdout tail: {}", out_recs.len(), tail(&r.stdout)));
    }
    for (i, (got, want)) in out_recs.iter().zip(want_out.iter()).enumerate() {
        let g = String::from_utf8_lossy(got);
        if !g.contains(want.as_str()) {
            return Verdict::fail(format!("stdout record {} contains the decoded message {}", i, crate::util::clip(want, 300)), crate::util::clip(&g, 400));
        }
    }
    if err_recs.len() != want_err {
        return Verdict::fail(format!("{} record(s) on stderr (one per rejected line)", want_err), format!("{} record(s); stderr tail: {}", err_recs.len(), tail(&r.stderr)));
    }
    Verdict::Pass
}

/// an unfragmented type-1 sentence whose MMSI identifies it
fn tagged_position(mmsi: u32, noise: &[u8]) -> Vec<u8> {
    let mut b: Vec<u8> = (0..21).map(|i| noise[i % noise.len()]).collect();
    set_bits(&mut b, 0, 6, 1);
    set_bits(&mut b, 8, 30, mmsi as u64);
    let (chars, fill) = armor::armor_bytes(&b);
    build::line(1, 1, None, b"A", &chars, fill as u32)
}

fn stream_line() -> impl Strategy<Value = Vec<Vec<u8>>> {
    let hi = || 128u8..=255;
    prop_oneof![
        // valid, identifiable
        5 => (any::<u32>(), proptest::collection::vec(any::<u8>(), 24)).prop_map(|(m, n)| vec![tagged_position(m & 0x3fff_ffff, &n)]),
        // valid with every field randomised (may or may not decode)
        3 => wellformed_spec().prop_map(|s| vec![s.render()]),
        // fragment groups, complete and broken, with noise
        3 => adversarial_events(8).prop_map(|e| e.iter().map(|x| render_ev(x).bytes).collect()),
        // a complete two-fragment type 5 (the repository's own example)
        1 => Just(vec![
            b"!AIVDM,2,1,1,B,53`soB8000010KSOW<0P4eDp4l6000000000000U0p<24t@P05H3S833CDP00000,0*78".to_vec(),
            b"!AIVDM,2,2,1,B,0000000,2*26".to_vec(),
        ]),
        // malformed, bad checksum, empty
        2 => malformed_line().prop_map(|l| vec![l.into_iter().filter(|b| *b != b'\n').collect()]),
        1 => Just(vec![vec![]]),
        1 => Just(vec![b"!AIVDM,1,1,,A,15,0*00".to_vec()]),
        // bytes >= 0x80 and NULs in rejected lines
        2 => proptest::collection::vec(prop_oneof![hi(), Just(0u8), 0x20u8..0x7f], 1..30).prop_map(|l| vec![l]),
        // bytes >= 0x80 inside *accepted* lines: tag block, channel, after the checksum
        2 => (any::<u32>(), proptest::collection::vec(any::<u8>(), 24), hi(), 0u8..3).prop_map(|(m, n, h, place)| {
            let mut b: Vec<u8> = (0..21).map(|i| n[i % n.len()]).collect();
            set_bits(&mut b, 0, 6, 1);
            set_bits(&mut b, 8, 30, (m & 0x3fff_ffff) as u64);
            let (chars, fill) = armor::armor_bytes(&b);
            let mut s = Spec::simple(1, 1, None, b"A", &chars, fill as u32);
            match place {
                0 => s.tag = Some(vec![b's', b':', h, 0xfe]),
                1 => s.channel = vec![h],
                _ => s.tail = vec![b' ', h, 0x00],
            }
            vec![s.render()]
        }),
        // CR LF endings
        2 => (any::<u32>(), proptest::collection::vec(any::<u8>(), 24)).prop_map(|(m, n)| {
            let mut l = tagged_position(m & 0x3fff_ffff, &n);
            l.push(b'\r');
            vec![l]
        }),
        // wrong checksum on an otherwise valid sentence
        1 => wellformed_spec().prop_map(|mut s| {
            s.cks = Cks::Delta(0x55);
            vec![s.render()]
        }),
        // the same line twice or three times in a row (repeaters do that)
        2 => (any::<u32>(), proptest::collection::vec(any::<u8>(), 24), 2usize..4, any::<bool>()).prop_map(|(m, n, times, bad)| {
            let mut l = tagged_position(m & 0x3fff_ffff, &n);
            if bad {
                let k = l.len() - 1;
                l[k] = if l[k] == b'0' { b'1' } else { b'0' };
            }
            vec![l; times]
        }),
        // long lines, accepted and rejected (up to the 384-character payload and beyond)
        2 => (200usize..500, any::<u8>(), any::<bool>()).prop_map(|(n, salt, good)| {
            let p: Vec<u8> = (0..n).map(|i| armor::ALPHABET[(i * 7 + salt as usize) & 63]).collect();
            let mut s = Spec::simple(1, 1, None, b"A", &p, 0);
            if !good {
                s.cks = Cks::Delta(1);
            }
            vec![s.render()]
        }),
        1 => (200usize..600, hi()).prop_map(|(n, h)| vec![vec![h; n]]),
        // a fragment group longer than any capacity of the no-allocator build (the tool is a std program)
        1 => (5usize..9, 40usize..90, any::<u8>()).prop_map(|(n, sz, salt)| {
            (1..=n).map(|k| {
                let mut p: Vec<u8> = (0..sz).map(|j| armor::ALPHABET[(j * 5 + k + salt as usize) & 63]).collect();
                if k == 1 {
                    p[0] = b'8';
                }
                build::line(n as u32, k as u32, Some((salt % 10) as u32), b"A", &p, 0)
            }).collect()
        }),
        // two groups interleaved, one received (VDM) one own-ship (VDO), tag blocks on some of the lines: only
        // the one opened last can complete, whatever the talker says
        2 => (2usize..5, any::<u8>(), any::<u8>(), any::<bool>()).prop_map(|(n, salt, tags, vdo_first)| {
            let mut out = Vec::new();
            for k in 1..=n {
                for g in 0..2usize {
                    let vdo = (g == 0) == vdo_first;
                    let p: Vec<u8> = (0..12).map(|j| armor::ALPHABET[(j * 3 + k + g * 7 + salt as usize) & 63]).collect();
                    let mut s = Spec::simple(n as u32, k as u32, Some(1 + g as u32), b"A", &p, 0);
                    if vdo {
                        s.addr = *b"AIVDO";
                    }
                    if ((tags as u32) >> ((2 * k + g) % 8)) & 1 == 1 {
                        s.tag = Some(b"s:2573345,c:1696241893*00".to_vec());
                    }
                    out.push(s.render());
                }
            }
            out
        }),
        // one own-ship group with a tag block on some of its lines only
        1 => (2usize..5, any::<u8>(), any::<u8>()).prop_map(|(n, salt, tags)| {
            (1..=n).map(|k| {
                let mut p: Vec<u8> = (0..14).map(|j| armor::ALPHABET[(j * 5 + k + salt as usize) & 63]).collect();
                if k == 1 {
                    p[0] = b'8';
                }
                let mut s = Spec::simple(n as u32, k as u32, Some(3), b"B", &p, 0);
                s.addr = *b"AIVDO";
                if ((tags as u32) >> (k % 8)) & 1 == 1 {
                    s.tag = Some(b"c:1241544035*53".to_vec());
                }
                s.render()
            }).collect()
        }),
        // the shortest lines the grammar allows: a decodable message whose closing (or opening) fragment is a
        // single character, with no sequence id and no channel, the checksum spelled with one digit when it
        // can be - 18 or 19 bytes, shorter than any "plausible minimum" a front end might impose
        2 => (any::<u32>(), proptest::collection::vec(any::<u8>(), 24), any::<bool>(), any::<bool>()).prop_map(|(m, n, short_first, one_digit)| {
            let mut b: Vec<u8> = (0..21).map(|i| n[i % n.len()]).collect();
            set_bits(&mut b, 0, 6, 1);
            set_bits(&mut b, 8, 30, (m & 0x3fff_ffff) as u64);
            let (chars, fill) = armor::armor_bytes(&b);
            let cut = if short_first { 1 } else { chars.len() - 1 };
            let mk = |k: u32, p: &[u8], fill: u32| {
                let mut s = Spec::simple(2, k, None, b"", p, fill);
                let body_xor = {
                    let r = s.render();
                    let star = r.iter().position(|c| *c == b'*').unwrap();
                    r[1..star].iter().fold(0u8, |a, c| a ^ c)
                };
                if one_digit && body_xor < 16 {
                    s.cks_digits = 1;
                }
                s.render()
            };
            vec![mk(1, &chars[..cut], 0), mk(2, &chars[cut..], fill as u32)]
        }),
        // odd line endings
        1 => (any::<u32>(), proptest::collection::vec(any::<u8>(), 24), prop::sample::select(vec![&b"\r\r"[..], b" \r", b"\t", b"\r \r", b"\x0b"])).prop_map(|(m, n, end)| {
            let mut l = tagged_position(m & 0x3fff_ffff, &n);
            l.extend_from_slice(end);
            vec![l]
        }),
    ]
}

fn streams() -> impl Strategy<Value = Input> {
    (proptest::collection::vec(stream_line(), 0..14), any::<bool>()).prop_map(|(groups, final_newline)| {
        let lines: Vec<Vec<u8>> = groups.into_iter().flatten().take(60).collect();
        let mut bytes = Vec::new();
        for (i, l) in lines.iter().enumerate() {
            bytes.extend(l.iter().filter(|b| **b != b'\n'));
            if i + 1 < lines.len() || final_newline {
                bytes.push(b'\n');
            }
        }
        Input::Stream { bytes }
    })
}

pub fn run(ctx: &mut Ctx) {
    ctx.rule = "process-level differential: byte streams of 0..60 lines assembled from identifiable valid sentences (unique MMSI), fully randomised well-formed sentences, complete and broken fragment groups, malformed lines, bad checksums, empty lines, CR LF endings, bytes >= 0x80 and NULs both in rejected lines and inside accepted ones (tag block, channel, after the checksum), with or without a final newline, and the empty stream, are piped into target/cli/debug/aisparser (built from /repo) and, line by line, into an in-process std parser. Required: exit status 0; one stdout record per line that completes a message, the i-th containing the Debug rendering of the i-th completed message; one stderr record per rejected line; nothing for incomplete fragments. Non-trivial = the stream has a line that is not valid UTF-8 or a completed fragment group; distinct by the stream bytes.".into();
    ctx.assumptions = vec![
        "sub-check generated-streams: the library (std build), not the tool, predicts per-line outcomes - the tool is what is under test; sub-check model-predicted-streams: shape, checksum, sequencing and decodability are predicted by the reference models alone, for the streams where they pin every line".into(),
        "the echo format of the offending line is not asserted".into(),
        "I/O errors on stdin and a closed stdout are environment faults, not line content; not tested".into(),
    ];
    if !std::path::Path::new(CLI).exists() {
        infra_error(&format!("{} does not exist; run ./check C20 <tier> (it builds the tool from /repo first)", CLI));
    }
    ctx.replay_regressions(check);
    // fixed streams
    for s in [&b""[..], b"\n", b"\n\n\n", b"no newline at all", b"\xff\n", b"!AIVDM,1,1,,A,15,0*00\n\xfe\xfd\n!AIVDM,1,1,,B,177KQJ5000G?tO`K>RA1wUbN0TKH,0*5C\n", b"\r\n\r\n"] {
        ctx.sweep_case("fixed-streams", &STD, &Input::Stream { bytes: s.to_vec() }, check);
    }
    let n = ctx.tier.pick(2_000, 20_000);
    ctx.run_proptest_serial("generated-streams", &STD, n, streams(), check);
    // the same kind of streams judged against the reference models instead of the library (a defect of the
    // library that the tool merely passes on is invisible to the comparison above)
    ctx.run_proptest_serial("model-predicted-streams", &STD, n, streams(), check);
}
