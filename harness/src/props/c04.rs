//! C04 — every fixed-position field decodes to the transmitted value.

use crate::adapter::{configs, Config, STD};
use crate::engine::{Ctx, Input, Rec, Verdict};
use crate::gen::payload::{field_sweep, payload_inputs, LenMode};
use crate::props::payload::check_input;
use crate::refmodel::layout::{self, Pat, Prop, RefMsg, SUPPORTED};

/// non-trivial: at least two compared (C04-owned) fields are non-zero and the payload is not
/// the all-ones pattern
fn nontrivial(r: &RefMsg, bytes: &[u8]) -> bool {
    match r {
        RefMsg::Msg(d) => {
            let nz = d
                .fields
                .iter()
                .filter(|f| f.path != "message_type")
                .flat_map(|f| f.checks.iter())
                .filter(|(p, pat)| {
                    *p == Prop::C04
                        && match pat {
                            Pat::Int(i) | Pat::SomeInt(i) => *i != 0,
                            Pat::Bool(b) => *b,
                            Pat::Render(_) => true,
                            _ => false,
                        }
                })
                .count();
            nz >= 2 && !bytes[1..].iter().all(|b| *b == 0xff)
        }
        _ => false,
    }
}

pub fn check(_sub: &str, cfg: &'static dyn Config, input: &Input, rec: &mut Rec) -> Verdict {
    check_input(Prop::C04, cfg, input, nontrivial, rec)
}

pub fn run(ctx: &mut Ctx) {
    ctx.rule = "payloads are built by writing chosen values into the field spans of the reference layout (M.1371-5 bit tables) and decoded with messages::parse (10% via armouring + AisParser::parse, unfragmented or in 2-5 fragments); every integer, flag and identifier field must equal the bits at its position. Non-trivial = at least two compared fields non-zero and not the all-ones payload; distinct by payload bytes.".into();
    ctx.assumptions = vec![
        "coordinates, speeds, courses, draught (C10), presence of sentinel codes (C11), enums (C12), text (C13), list shapes (C14), binary tails (C15) and communication state (C16) are generated as neighbours here but compared by their own properties".into(),
        "reference layout typed in from ITU-R M.1371-5 / gpsd AIVDM tables using the crate's public field names".into(),
    ];
    ctx.replay_regressions(check);

    // (i) deterministic field sweep: every field of every specified shape, whole-field and
    // single-bit inversions against an all-zero and an all-one background
    for &t in SUPPORTED.iter() {
        for len in layout::standard_lengths(t) {
            let mut inputs = Vec::new();
            field_sweep(t, len, |b| inputs.push(b));
            for b in inputs {
                if ctx.sub_failed("field-sweep") {
                    break;
                }
                let input = Input::Payload { bytes: b };
                for cfg in configs() {
                    ctx.sweep_case("field-sweep", cfg, &input, check);
                }
            }
        }
    }
    ctx.mark_exhaustive("field-sweep", "every field of every specified shape of the 21 layouts x {inverted whole, each single bit inverted} x {all-zero, all-one background}");

    // (ii) random joint assignments
    let n = ctx.tier.pick(200_000, 2_000_000);
    ctx.run_proptest("random-assignments", &STD, n, payload_inputs(SUPPORTED.to_vec(), LenMode::Standard, Prop::C04, 8, 0.10), check);
    let n = ctx.tier.pick(60_000, 400_000);
    ctx.run_proptest("random-assignments-any-length", &STD, n, payload_inputs(SUPPORTED.to_vec(), LenMode::Any, Prop::C04, 5, 0.10), check);
    for cfg in configs().into_iter().skip(1) {
        ctx.run_proptest("random-assignments", cfg, n / 2, payload_inputs(SUPPORTED.to_vec(), LenMode::Standard, Prop::C04, 8, 0.10), check);
    }
    // every pair of fields at their special values (see gen::payload::pairwise_specials)
    {
        let mut mix = crate::util::Mix::new(ctx.seed, 0xa11);
        let reps = ctx.tier.pick(1, 6);
        for (t, len, part) in crate::gen::payload::pairwise_shapes() {
            
            for base in 0..4u8 {
                crate::gen::payload::pairwise_specials(t, len, part, if base == 0 { reps } else { 1 }, base, &mut mix, |b| {
                    ctx.sweep_case("pairwise-special-values", &crate::adapter::STD, &Input::Payload { bytes: b }, check);
                });
            }
        }
        ctx.mark_exhaustive("pairwise-special-values", "every pair of fields of every layout (longest specified shape, and the shortest for the variable ones) x each field's special values (0, 1, max, max-1, 'not available' codes, MMSI station classes, time-stamp codes 60..63; all values of fields up to 3 bits), against three backgrounds: the other bits random, all zero, and 'everything unavailable'");
    }
    // decoding after an arbitrary history, in an unfragmented sentence or in a closing line without a group
    {
        let n_after = ctx.tier.pick(24_000, 300_000);
        ctx.run_proptest("after-history", &crate::adapter::STD, n_after, crate::gen::payload::payload_inputs_after(SUPPORTED.to_vec(), Prop::C04), check);
    }
}
