//! C08 — exactly the well-formed AIVDM/AIVDO sentence shapes are accepted.

use crate::adapter::{configs, Config, STD};
use crate::engine::{Ctx, Input, Line, Rec, Verdict};
use crate::gen::sentence::wellformed_spec;
use crate::props::hist::{gate, Gate};
use crate::refmodel::build;
use proptest::prelude::*;

pub fn check(sub: &str, cfg: &'static dyn Config, input: &Input, rec: &mut Rec) -> Verdict {
    if sub.contains("continuation-shapes") {
        // replay of a case saved by that sub-check
        return check_continuation(sub, cfg, input, rec);
    }
    let lines = match input {
        Input::History { lines } => lines,
        _ => crate::engine::infra_error("C08 expects a history"),
    };
    // every line is judged on a fresh parser: C08 is about form, not sequencing
    let mut notes = Vec::new();
    for (i, l) in lines.iter().enumerate() {
        if cfg.name() == "none" && l.bytes.len() > 384 {
            return Verdict::Excluded("longer than the no-allocator payload capacity");
        }
        let out = cfg.new_parser().parse(&l.bytes, l.decode);
        rec.evals += 1;
        if let crate::outcome::Outcome::Panic(m) = &out {
            return Verdict::fail(format!("line {}: a result or an error value", i), format!("panic: {}", m));
        }
        match gate(&l.bytes) {
            Gate::Malformed(why) => {
                rec.class("malformed");
                rec.nontrivial = true;
                if !out.is_err() {
                    return Verdict::fail(format!("line {}: an error ({})", i, why), out.brief());
                }
            }
            Gate::BadChecksum(_) => {
                rec.class("wellformed-bad-checksum");
                rec.nontrivial = true;
                if !out.is_err() {
                    return Verdict::fail(format!("line {}: an error (checksum does not match)", i), out.brief());
                }
            }
            Gate::StarInField(_) => {
                rec.class("star-in-field(excluded)");
                if lines.len() == 1 {
                    return Verdict::Excluded("'*' inside a field");
                }
            }
            Gate::Pass(f) => {
                rec.nontrivial = true;
                let pinned = (f.num_fragments == 1 && f.fragment_number == 1) || (f.fragment_number == 1 && f.num_fragments >= 2);
                if f.empty_tag {
                    rec.class("empty-tag-block(not pinned)");
                } else if pinned && !l.decode {
                    rec.class("wellformed-accepted-numbering");
                    if !out.is_ok() {
                        return Verdict::fail(format!("line {}: accepted (well-formed, checksum matches, numbering {} of {})", i, f.fragment_number, f.num_fragments), out.brief());
                    }
                } else {
                    rec.class("wellformed-other-numbering");
                }
            }
        }
        if rec.want_note && notes.len() < 6 {
            notes.push(format!("{:?} -> {}", crate::util::clip(&crate::util::esc(&l.bytes), 100), crate::util::clip(&out.brief(), 100)));
        }
    }
    if rec.want_note {
        rec.note = Some(notes.join(" | "));
    }
    Verdict::Pass
}

/// the last line is a candidate continuation; the lines before it are the well-formed earlier
/// fragments of its group (sent without decoding). The shape rule is the same for a
/// continuation as for a first fragment: a malformed line or one with a wrong checksum is
/// rejected, and the untouched shape with the expected numbering is accepted.
pub fn check_continuation(_sub: &str, cfg: &'static dyn Config, input: &Input, rec: &mut Rec) -> Verdict {
    let lines = match input {
        Input::History { lines } if lines.len() >= 2 => lines,
        _ => crate::engine::infra_error("C08 continuation expects a history of at least two lines"),
    };
    let (prefix, last) = lines.split_at(lines.len() - 1);
    let l = &last[0];
    let total: usize = lines.iter().map(|x| x.bytes.len()).sum();
    if cfg.name() == "none" && total > 384 {
        return Verdict::Excluded("longer than the no-allocator payload capacity");
    }
    let mut p = cfg.new_parser();
    let mut open = None;
    for (i, pl) in prefix.iter().enumerate() {
        let out = p.parse(&pl.bytes, false);
        rec.evals += 1;
        if !out.is_ok() {
            return Verdict::fail(format!("set-up line {} (fragment {} of a well-formed group) is accepted", i, i + 1), out.brief());
        }
        if let Gate::Pass(f) = gate(&pl.bytes) {
            open = Some((f.num_fragments, f.fragment_number, f.message_id));
        }
    }
    let out = p.parse(&l.bytes, l.decode);
    rec.evals += 1;
    if let crate::outcome::Outcome::Panic(m) = &out {
        return Verdict::fail("the continuation candidate gives a result or an error value".to_string(), format!("panic: {}", m));
    }
    let i = lines.len() - 1;
    match gate(&l.bytes) {
        Gate::Malformed(why) => {
            rec.class("continuation-malformed");
            rec.nontrivial = true;
            if !out.is_err() {
                return Verdict::fail(format!("line {} (continuation of an open group): an error ({})", i, why), out.brief());
            }
        }
        Gate::BadChecksum(_) => {
            rec.class("continuation-bad-checksum");
            rec.nontrivial = true;
            if !out.is_err() {
                return Verdict::fail(format!("line {} (continuation of an open group): an error (checksum does not match)", i), out.brief());
            }
        }
        Gate::StarInField(_) => {
            rec.class("star-in-field(excluded)");
            return Verdict::Excluded("'*' inside a field");
        }
        Gate::Pass(f) => {
            rec.nontrivial = true;
            let continues = match open {
                Some((n, k, id)) => f.num_fragments == n && f.fragment_number == k.wrapping_add(1) && f.message_id == id && k < n,
                None => false,
            };
            if f.empty_tag {
                rec.class("empty-tag-block(not pinned)");
            } else if continues && !l.decode {
                rec.class("continuation-wellformed-accepted");
                if !out.is_ok() {
                    return Verdict::fail(format!("line {}: accepted (well-formed, checksum matches, fragment {} of {} directly continuing the open group)", i, f.fragment_number, f.num_fragments), out.brief());
                }
            } else {
                rec.class("continuation-wellformed-other-numbering");
            }
        }
    }
    if rec.want_note {
        rec.note = Some(format!("after {} set-up line(s): {:?} -> {}", prefix.len(), crate::util::clip(&crate::util::esc(&l.bytes), 100), crate::util::clip(&out.brief(), 100)));
    }
    Verdict::Pass
}

/// (earlier fragments, continuation) pairs whose continuation is mutated at every position
fn continuation_pool() -> Vec<(Vec<Vec<u8>>, Vec<u8>)> {
    vec![
        (vec![build::line(2, 1, Some(1), b"B", b"55?MbV02>H97ac<H", 0)], build::line(2, 2, Some(1), b"B", b"4eEp6000000", 2)),
        (vec![build::line(3, 1, None, b"A", b"8h", 0), build::line(3, 2, None, b"A", b"0w", 0)], build::line(3, 3, None, b"A", b"P", 4)),
        (vec![build::line(9, 1, Some(0), b"", b"1", 0)], build::line(9, 2, Some(0), b"", b"5", 0)),
    ]
}

const MUT_BYTES: [u8; 18] = [b',', b'*', b'!', b'$', b'\\', b'0', b'9', b'5', b'A', b'a', b'G', b'g', b' ', b'\r', b'\n', 0x00, 0xff, b'-'];

/// every single-point mutation of `base` (delete / insert / replace at every position), each with
/// the checksum left alone and re-fixed
fn mutations(base: &[u8]) -> Vec<Vec<u8>> {
    let mut out = Vec::new();
    let mut push = |m: Vec<u8>| {
        let mut fixed = m.clone();
        out.push(m);
        if build::fix_checksum(&mut fixed) {
            out.push(fixed);
        }
    };
    for i in 0..base.len() {
        let mut d = base.to_vec();
        d.remove(i);
        push(d);
        for b in 0..=255u8 {
            if b != base[i] {
                let mut r = base.to_vec();
                r[i] = b;
                push(r);
            }
        }
    }
    for i in 0..=base.len() {
        for &b in MUT_BYTES.iter() {
            let mut ins = base.to_vec();
            ins.insert(i, b);
            push(ins);
        }
    }
    out
}

fn pool() -> Vec<Vec<u8>> {
    vec![
        b"!AIVDM,1,1,,B,15,0*2E".to_vec(),
        build::line(1, 1, None, b"A", b"13u?etPv2;0n:dDPwUM1U1Cb069D", 0),
        build::line(2, 1, Some(3), b"B", b"55?MbV02>H97ac<H", 0),
        build::line(1, 1, Some(9), b"", b"w", 5),
        {
            let mut s = build::Spec::simple(1, 1, None, b"A", b"15", 0);
            s.tag = Some(b"s:r,c:1*5A".to_vec());
            s.delim = b'$';
            s.addr = *b"BSVDO";
            s.tail = b"\r\n".to_vec();
            s.render()
        },
        {
            let mut s = build::Spec::simple(10, 1, Some(255), b"12", b"8h", 2);
            s.n.zeros = 1;
            s.cks_digits = 4;
            s.cks_lower = true;
            s.render()
        },
    ]
}

/// field-level near misses built from one valid sentence
fn near_misses() -> Vec<Vec<u8>> {
    let f = |n: &str, k: &str, id: &str, ch: &str, pl: &str, fill: &str, cks: Option<&str>, pre: &str, post: &str| -> Vec<u8> {
        let body = format!("AIVDM,{},{},{},{},{},{}", n, k, id, ch, pl, fill);
        let x = crate::util::xor(body.as_bytes());
        let c = match cks {
            Some(c) => c.replace("XX", &format!("{:02X}", x)).replace("xx", &format!("{:02x}", x)),
            None => format!("*{:02X}", x),
        };
        format!("{}!{}{}{}", pre, body, c, post).into_bytes()
    };
    let mut v = vec![
        f("1", "1", "", "A", "15", "0", None, "", ""),
        f("256", "1", "", "A", "15", "0", None, "", ""),
        f("999", "1", "", "A", "15", "0", None, "", ""),
        f("1", "256", "", "A", "15", "0", None, "", ""),
        f("1", "1", "256", "A", "15", "0", None, "", ""),
        f("1", "1", "1a", "A", "15", "0", None, "", ""),
        f("1", "1", "-1", "A", "15", "0", None, "", ""),
        f("+1", "1", "", "A", "15", "0", None, "", ""),
        f(" 1", "1", "", "A", "15", "0", None, "", ""),
        f("1 ", "1", "", "A", "15", "0", None, "", ""),
        f("", "1", "", "A", "15", "0", None, "", ""),
        f("1", "", "", "A", "15", "0", None, "", ""),
        f("1", "1", "", "A", "", "0", None, "", ""),
        f("1", "1", "", "A", "15", "", None, "", ""),
        f("1", "1", "", "A", "15", "6", None, "", ""),
        f("1", "1", "", "A", "15", "9", None, "", ""),
        f("1", "1", "", "A", "15", "10", None, "", ""),
        f("1", "1", "", "A", "15", "255", None, "", ""),
        f("1", "1", "", "A", "15", "256", None, "", ""),
        f("1", "1", "", "A", "15", "05", None, "", ""),
        f("1", "1", "", "A", "15", "006", None, "", ""),
        f("1", "1", "", "A", "15", "+1", None, "", ""),
        f("1", "1", "", "A", "15", "-1", None, "", ""),
        f("1", "1", "", "A", "15", " 1", None, "", ""),
        f("1", "1", "", "A", "15", "0", Some(""), "", ""),
        f("1", "1", "", "A", "15", "0", Some("*"), "", ""),
        f("1", "1", "", "A", "15", "0", Some("*1XX"), "", ""),
        f("1", "1", "", "A", "15", "0", Some("*0XX"), "", ""),
        f("1", "1", "", "A", "15", "0", Some("*000000XX"), "", ""),
        f("1", "1", "", "A", "15", "0", Some("*000000XX9"), "", ""),
        f("1", "1", "", "A", "15", "0", Some("*0000000XX"), "", ""),
        f("1", "1", "", "A", "15", "0", Some("*xx"), "", ""),
        f("1", "1", "", "A", "15", "0", Some("*XXG"), "", ""),
        f("1", "1", "", "A", "15", "0", Some("* XX"), "", ""),
        f("1", "1", "", "A", "15", "0", Some("XX"), "", ""),
        f("1", "1", "", "A", "15", "0", None, "", "\r\n"),
        f("1", "1", "", "A", "15", "0", None, "", ",extra"),
        f("1", "1", "", "A", "15", "0", None, "", "*"),
        f("1", "1", "", "A", "15", "0", None, "", " *00"),
        f("1", "1", "", "A", "15", "0", None, "", "!AIVDM,1,1,,B,w,5*00"),
        f("1", "1", "", "A", "15", "0", None, "\\s:1*FF\\", ""),
        f("1", "1", "", "A", "15", "0", None, "\\c:1241544035*53\\", ""),
        f("1", "1", "", "A", "15", "0", None, " ", ""),
        f("1", "1", "", "A", "15", "0", None, "x", ""),
        f("1", "1", "", "A", "15", "0", None, "\\s:1\\", ""),
        f("1", "1", "", "A", "15", "0", None, "\\s:1", ""),
        f("1", "1", "", "A", "15", "0", None, "s:1\\", ""),
        f("1", "1", "", "A", "15", "0", None, "\\\\", ""),
        f("1", "1", "", "A", "15", "0", None, "\\a\\\\b\\", ""),
        f("1", "1", "", "A", "15", "0", None, "\\a\\ ", ""),
        f("1", "1", "", "A,B", "15", "0", None, "", ""),
        f("1", "1", "", "A", "15,0", "0", None, "", ""),
        f("1", "1", "", "AB", "15", "0", None, "", ""),
        f("01", "001", "000", "", "15", "0", None, "", ""),
        f("2", "1", "0", "B", "w", "5", None, "", ""),
        f("255", "1", "255", "B", "w", "5", None, "", ""),
        f("1", "1", "", "A", "15", "0,", None, "", ""),
        f("1", "1", "", "A", "15", "0 ", None, "", ""),
    ];
    // structural damage
    let good = f("1", "1", "", "A", "15", "0", None, "", "");
    v.push(good[1..].to_vec()); // no delimiter
    v.push(good[..good.len() - 3].to_vec()); // no '*hh'
    v.push(good[..good.len() - 2].to_vec()); // '*' without digits
    v.push(good[..good.len() - 1].to_vec()); // one digit (value changes)
    let mut dollar = good.clone();
    dollar[0] = b'$';
    v.push(dollar);
    v.push(b"!AIVD,1,1,,A,15,0*00".to_vec());
    v.push(b"!AIVDMM,1,1,,A,15,0*00".to_vec());
    v
}

pub fn run(ctx: &mut Ctx) {
    ctx.rule = "differential against a hand-written recogniser of the stated shape, each line on a fresh parser: (i) every single-point mutation (delete; insert one of 18 significant bytes; replace with every one of the 255 other byte values; at every position) of six valid sentences, each with the checksum left alone and re-fixed; (ii) ~60 field-level near misses (count 256, fill 6, empty payload, checksum 100 / 0XX / nine digits / lower case, tag-block damage, leading garbage, CR LF ...); (iii) generated well-formed sentences and random byte strings; (iv) every single-point mutation of three continuation fragments, judged on a parser holding the earlier fragments of the group (a malformed or wrongly checksummed continuation is an error; the untouched one is accepted). Recogniser rejects => the parser returns an error; recogniser accepts with numbering 1-of-1 or 1-of-n => Ok. Non-trivial = a line within edit distance 1 of an accepted line, an accepted line, or a malformed line; distinct by the bytes.".into();
    ctx.assumptions = vec![
        "lines whose fields contain '*' are excluded (two readings of the statement, see DESIGN.md C02)".into(),
        "an empty tag block '\\\\' is not pinned either way".into(),
        "for numberings other than 1-of-1 and 1-of-n only the reject direction is asserted (sequencing is C06's)".into(),
    ];
    ctx.replay_regressions(check);
    for base in pool() {
        for m in mutations(&base) {
            if ctx.sub_failed("single-point-mutations") {
                break;
            }
            ctx.sweep_case("single-point-mutations", &STD, &Input::History { lines: vec![Line::new(m, false)] }, check);
        }
    }
    ctx.mark_exhaustive("single-point-mutations", "every deletion, every insertion of 18 significant byte values and every replacement by all 255 other byte values at every position of 6 valid sentences, with and without re-fixing the checksum");
    // the same shape rules hold for a continuation fragment arriving on an open group
    for (cfgi, cfg) in configs().into_iter().enumerate() {
        for (prefix, base) in continuation_pool() {
            let cands: Vec<Vec<u8>> = std::iter::once(base.clone()).chain(mutations(&base)).collect();
            for (j, m) in cands.into_iter().enumerate() {
                if ctx.sub_failed("continuation-shapes") {
                    break;
                }
                // the other two builds see every seventh mutation (the sentence level is shared code)
                if cfgi > 0 && j % 7 != 0 {
                    continue;
                }
                let mut lines: Vec<Line> = prefix.iter().map(|b| Line::new(b.clone(), false)).collect();
                lines.push(Line::new(m, false));
                ctx.sweep_case("continuation-shapes", cfg, &Input::History { lines }, check_continuation);
            }
        }
    }
    ctx.mark_exhaustive("continuation-shapes", "every single-point mutation (as above) of three continuation fragments (2 of 2, 3 of 3, 2 of 9), each judged on a parser that holds the earlier fragments of its group");
    for m in near_misses() {
        for decode in [false, true] {
            ctx.sweep_case("near-misses", &STD, &Input::History { lines: vec![Line::new(m.clone(), decode)] }, check);
        }
    }
    ctx.mark_exhaustive("near-misses", "a fixed catalogue of field-level near misses");
    let n = ctx.tier.pick(150_000, 1_000_000);
    let wf = wellformed_spec().prop_map(|s| Input::History { lines: vec![Line::new(s.render(), false)] });
    ctx.run_proptest("generated-wellformed", &STD, n, wf, check);
    // the shape rules are the same in the alloc and no-allocator builds (lines above the no-allocator
    // payload capacity are excluded there)
    for cfg in configs().into_iter().skip(1) {
        let wf = wellformed_spec().prop_map(|s| Input::History { lines: vec![Line::new(s.render(), false)] });
        ctx.run_proptest("generated-wellformed", cfg, n / 3, wf, check);
        for m in near_misses() {
            ctx.sweep_case("near-misses", cfg, &Input::History { lines: vec![Line::new(m, false)] }, check);
        }
    }
    // generated sentence, one random edit, checksum re-fixed half the time
    let mutated = (wellformed_spec(), any::<u16>(), 0u8..3, any::<u8>(), any::<bool>()).prop_map(|(s, pos, kind, byte, fix)| {
        let mut b = s.render();
        let i = (pos as usize * b.len()) >> 16;
        match kind {
            0 => {
                b.remove(i);
            }
            1 => b.insert(i, byte),
            _ => b[i] = byte,
        }
        if fix {
            build::fix_checksum(&mut b);
        }
        Input::History { lines: vec![Line::new(b, false)] }
    });
    ctx.run_proptest("generated-mutated", &STD, n, mutated, check);
    // generated continuation fragments (any group size up to 9, any position above 1, any id), one random edit,
    // checksum re-fixed half the time, on a parser that holds fragments 1..k-1
    let cont = (2u32..=9, any::<u16>(), prop_oneof![Just(None), (0u32..=9).prop_map(Some), Just(Some(255u32))])
        .prop_flat_map(|(n, kk, id)| {
            let k = 2 + ((kk as u32 * (n - 1)) >> 16);
            (Just((n, k, id)), crate::gen::sentence::spec_with_numbering(crate::refmodel::build::Num::plain(n), crate::refmodel::build::Num::plain(k), id.map(crate::refmodel::build::Num::plain)), any::<u16>(), 0u8..4, any::<u8>(), any::<bool>())
        })
        .prop_map(|((n, k, id), mut s, pos, kind, byte, fix)| {
            s.payload.truncate(60);
            let mut b = s.render();
            let i = (pos as usize * b.len()) >> 16;
            match kind {
                0 => {
                    b.remove(i);
                }
                1 => b.insert(i, byte),
                2 => b[i] = byte,
                _ => {}
            }
            if fix {
                build::fix_checksum(&mut b);
            }
            let mut lines: Vec<Line> = (1..k).map(|j| Line::new(build::line(n, j, id, b"A", b"0", 0), false)).collect();
            lines.push(Line::new(b, false));
            Input::History { lines }
        });
    ctx.run_proptest("continuation-shapes-generated", &STD, n / 3, cont, check_continuation);
    let raw = proptest::collection::vec(any::<u8>(), 0..80).prop_map(|b| Input::History { lines: vec![Line::new(b, false)] });
    ctx.run_proptest("random-bytes", &STD, n / 3, raw, check);
}
