//! C08 — exactly the well-formed AIVDM/AIVDO sentence shapes are accepted.

use crate::adapter::{configs, Config, STD};
use crate::engine::{Ctx, Input, Line, Rec, Verdict};
use crate::gen::sentence::wellformed_spec;
use crate::props::hist::{gate, Gate};
use crate::refmodel::build;
use proptest::prelude::*;

pub fn check(_sub: &str, cfg: &'static dyn Config, input: &Input, rec: &mut Rec) -> Verdict {
    let lines = match input {
        Input::History { lines } => lines,
        _ => crate::engine::infra_error("C08 expects a history"),
    };
    // every line is judged on a fresh parser: C08 is about form, not sequencing
    let mut notes = Vec::new();
    for (i, l) in lines.iter().enumerate() {
        if cfg.name() == "none" && l.bytes.len() > 384 {
            return Verdict::Excluded("longer than the no-allocator payload capacity");
        }
        let out = cfg.new_parser().parse(&l.bytes, l.decode);
        rec.evals += 1;
        if let crate::outcome::Outcome::Panic(m) = &out {
            return Verdict::fail(format!("line {}: a result or an error value", i), format!("panic: {}", m));
        }
        match gate(&l.bytes) {
            Gate::Malformed(why) => {
                rec.class("malformed");
                rec.nontrivial = true;
                if !out.is_err() {
                    return Verdict::fail(format!("line {}: an error ({})", i, why), out.brief());
                }
            }
            Gate::BadChecksum(_) => {
                rec.class("wellformed-bad-checksum");
                rec.nontrivial = true;
                if !out.is_err() {
                    return Verdict::fail(format!("line {}: an error (checksum does not match)", i), out.brief());
                }
            }
            Gate::StarInField(_) => {
                rec.class("star-in-field(excluded)");
                if lines.len() == 1 {
                    return Verdict::Excluded("'*' inside a field");
                }
            }
            Gate::Pass(f) => {
                rec.nontrivial = true;
                let pinned = (f.num_fragments == 1 && f.fragment_number == 1) || (f.fragment_number == 1 && f.num_fragments >= 2);
                if f.empty_tag {
                    rec.class("empty-tag-block(not pinned)");
                } else if pinned && !l.decode {
                    rec.class("wellformed-accepted-numbering");
                    if !out.is_ok() {
                        return Verdict::fail(format!("line {}: accepted (well-formed, checksum matches, numbering {} of {})", i, f.fragment_number, f.num_fragments), out.brief());
                    }
                } else {
                    rec.class("wellformed-other-numbering");
                }
            }
        }
        if rec.want_note && notes.len() < 6 {
            notes.push(format!("{:?} -> {}", crate::util::clip(&crate::util::esc(&l.bytes), 100), crate::util::clip(&out.brief(), 100)));
        }
    }
    if rec.want_note {
        rec.note = Some(notes.join(" | "));
    }
    Verdict::Pass
}

const MUT_BYTES: [u8; 18] = [b',', b'*', b'!', b'$', b'\\', b'0', b'9', b'5', b'A', b'a', b'G', b'g', b' ', b'\r', b'\n', 0x00, 0xff, b'-'];

/// every single-point mutation of `base` (delete / insert / replace at every position), each with
/// the checksum left alone and re-fixed
fn mutations(base: &[u8]) -> Vec<Vec<u8>> {
    let mut out = Vec::new();
    let mut push = |m: Vec<u8>| {
        let mut fixed = m.clone();
        out.push(m);
        if build::fix_checksum(&mut fixed) {
            out.push(fixed);
        }
    };
    for i in 0..base.len() {
        let mut d = base.to_vec();
        d.remove(i);
        push(d);
        for b in 0..=255u8 {
            if b != base[i] {
                let mut r = base.to_vec();
                r[i] = b;
                push(r);
            }
        }
    }
    for i in 0..=base.len() {
        for &b in MUT_BYTES.iter() {
            let mut ins = base.to_vec();
            ins.insert(i, b);
            push(ins);
        }
    }
    out
}

fn pool() -> Vec<Vec<u8>> {
    vec![
        b"!AIVDM,1,1,,B,15,0*2E".to_vec(),
        build::line(1, 1, None, b"A", b"13u?etPv2;0n:dDPwUM1U1Cb069D", 0),
        build::line(2, 1, Some(3), b"B", b"55?MbV02>H97ac<H", 0),
        build::line(1, 1, Some(9), b"", b"w", 5),
        {
            let mut s = build::Spec::simple(1, 1, None, b"A", b"15", 0);
            s.tag = Some(b"s:r,c:1*5A".to_vec());
            s.delim = b'$';
            s.addr = *b"BSVDO";
            s.tail = b"\r\n".to_vec();
            s.render()
        },
        {
            let mut s = build::Spec::simple(10, 1, Some(255), b"12", b"8h", 2);
            s.n.zeros = 1;
            s.cks_digits = 4;
            s.cks_lower = true;
            s.render()
        },
    ]
}

/// field-level near misses built from one valid sentence
fn near_misses() -> Vec<Vec<u8>> {
    let f = |n: &str, k: &str, id: &str, ch: &str, pl: &str, fill: &str, cks: Option<&str>, pre: &str, post: &str| -> Vec<u8> {
        let body = format!("AIVDM,{},{},{},{},{},{}", n, k, id, ch, pl, fill);
        let x = crate::util::xor(body.as_bytes());
        let c = match cks {
            Some(c) => c.replace("XX", &format!("{:02X}", x)).replace("xx", &format!("{:02x}", x)),
            None => format!("*{:02X}", x),
        };
        format!("{}!{}{}{}", pre, body, c, post).into_bytes()
    };
    let mut v = vec![
        f("1", "1", "", "A", "15", "0", None, "", ""),
        f("256", "1", "", "A", "15", "0", None, "", ""),
        f("999", "1", "", "A", "15", "0", None, "", ""),
        f("1", "256", "", "A", "15", "0", None, "", ""),
        f("1", "1", "256", "A", "15", "0", None, "", ""),
        f("1", "1", "1a", "A", "15", "0", None, "", ""),
        f("1", "1", "-1", "A", "15", "0", None, "", ""),
        f("+1", "1", "", "A", "15", "0", None, "", ""),
        f(" 1", "1", "", "A", "15", "0", None, "", ""),
        f("1 ", "1", "", "A", "15", "0", None, "", ""),
        f("", "1", "", "A", "15", "0", None, "", ""),
        f("1", "", "", "A", "15", "0", None, "", ""),
        f("1", "1", "", "A", "", "0", None, "", ""),
        f("1", "1", "", "A", "15", "", None, "", ""),
        f("1", "1", "", "A", "15", "6", None, "", ""),
        f("1", "1", "", "A", "15", "9", None, "", ""),
        f("1", "1", "", "A", "15", "10", None, "", ""),
        f("1", "1", "", "A", "15", "255", None, "", ""),
        f("1", "1", "", "A", "15", "256", None, "", ""),
        f("1", "1", "", "A", "15", "05", None, "", ""),
        f("1", "1", "", "A", "15", "006", None, "", ""),
        f("1", "1", "", "A", "15", "+1", None, "", ""),
        f("1", "1", "", "A", "15", "-1", None, "", ""),
        f("1", "1", "", "A", "15", " 1", None, "", ""),
        f("1", "1", "", "A", "15", "0", Some(""), "", ""),
        f("1", "1", "", "A", "15", "0", Some("*"), "", ""),
        f("1", "1", "", "A", "15", "0", Some("*1XX"), "", ""),
        f("1", "1", "", "A", "15", "0", Some("*0XX"), "", ""),
        f("1", "1", "", "A", "15", "0", Some("*000000XX"), "", ""),
        f("1", "1", "", "A", "15", "0", Some("*000000XX9"), "", ""),
        f("1", "1", "", "A", "15", "0", Some("*0000000XX"), "", ""),
        f("1", "1", "", "A", "15", "0", Some("*xx"), "", ""),
        f("1", "1", "", "A", "15", "0", Some("*XXG"), "", ""),
        f("1", "1", "", "A", "15", "0", Some("* XX"), "", ""),
        f("1", "1", "", "A", "15", "0", Some("XX"), "", ""),
        f("1", "1", "", "A", "15", "0", None, "", "\r\n"),
        f("1", "1", "", "A", "15", "0", None, "", ",extra"),
        f("1", "1", "", "A", "15", "0", None, "", "*"),
        f("1", "1", "", "A", "15", "0", None, "", " *00"),
        f("1", "1", "", "A", "15", "0", None, "", "!AIVDM,1,1,,B,w,5*00"),
        f("1", "1", "", "A", "15", "0", None, "\\s:1*FF\\", ""),
        f("1", "1", "", "A", "15", "0", None, "\\c:1241544035*53\\", ""),
        f("1", "1", "", "A", "15", "0", None, " ", ""),
        f("1", "1", "", "A", "15", "0", None, "x", ""),
        f("1", "1", "", "A", "15", "0", None, "\\s:1\\", ""),
        f("1", "1", "", "A", "15", "0", None, "\\s:1", ""),
        f("1", "1", "", "A", "15", "0", None, "s:1\\", ""),
        f("1", "1", "", "A", "15", "0", None, "\\\\", ""),
        f("1", "1", "", "A", "15", "0", None, "\\a\\\\b\\", ""),
        f("1", "1", "", "A", "15", "0", None, "\\a\\ ", ""),
        f("1", "1", "", "A,B", "15", "0", None, "", ""),
        f("1", "1", "", "A", "15,0", "0", None, "", ""),
        f("1", "1", "", "AB", "15", "0", None, "", ""),
        f("01", "001", "000", "", "15", "0", None, "", ""),
        f("2", "1", "0", "B", "w", "5", None, "", ""),
        f("255", "1", "255", "B", "w", "5", None, "", ""),
        f("1", "1", "", "A", "15", "0,", None, "", ""),
        f("1", "1", "", "A", "15", "0 ", None, "", ""),
    ];
    // structural damage
    let good = f("1", "1", "", "A", "15", "0", None, "", "");
    v.push(good[1..].to_vec()); // no delimiter
    v.push(good[..good.len() - 3].to_vec()); // no '*hh'
    v.push(good[..good.len() - 2].to_vec()); // '*' without digits
    v.push(good[..good.len() - 1].to_vec()); // one digit (value changes)
    let mut dollar = good.clone();
    dollar[0] = b'$';
    v.push(dollar);
    v.push(b"!AIVD,1,1,,A,15,0*00".to_vec());
    v.push(b"!AIVDMM,1,1,,A,15,0*00".to_vec());
    v
}

pub fn run(ctx: &mut Ctx) {
    ctx.rule = "differential against a hand-written recogniser of the stated shape, each line on a fresh parser: (i) every single-point mutation (delete; insert one of 18 significant bytes; replace with every one of the 255 other byte values; at every position) of six valid sentences, each with the checksum left alone and re-fixed; (ii) ~60 field-level near misses (count 256, fill 6, empty payload, checksum 100 / 0XX / nine digits / lower case, tag-block damage, leading garbage, CR LF ...); (iii) generated well-formed sentences and random byte strings. Recogniser rejects => the parser returns an error; recogniser accepts with numbering 1-of-1 or 1-of-n => Ok. Non-trivial = a line within edit distance 1 of an accepted line, an accepted line, or a malformed line; distinct by the bytes.".into();
    ctx.assumptions = vec![
        "lines whose fields contain '*' are excluded (two readings of the statement, see DESIGN.md C02)".into(),
        "an empty tag block '\\\\' is not pinned either way".into(),
        "for numberings other than 1-of-1 and 1-of-n only the reject direction is asserted (sequencing is C06's)".into(),
    ];
    ctx.replay_regressions(check);
    for base in pool() {
        for m in mutations(&base) {
            if ctx.sub_failed("single-point-mutations") {
                break;
            }
            ctx.sweep_case("single-point-mutations", &STD, &Input::History { lines: vec![Line::new(m, false)] }, check);
        }
    }
    ctx.mark_exhaustive("single-point-mutations", "every deletion, every insertion of 18 significant byte values and every replacement by all 255 other byte values at every position of 6 valid sentences, with and without re-fixing the checksum");
    for m in near_misses() {
        for decode in [false, true] {
            ctx.sweep_case("near-misses", &STD, &Input::History { lines: vec![Line::new(m.clone(), decode)] }, check);
        }
    }
    ctx.mark_exhaustive("near-misses", "a fixed catalogue of field-level near misses");
    let n = ctx.tier.pick(150_000, 1_000_000);
    let wf = wellformed_spec().prop_map(|s| Input::History { lines: vec![Line::new(s.render(), false)] });
    ctx.run_proptest("generated-wellformed", &STD, n, wf, check);
    // the shape rules are the same in the alloc and no-allocator builds (lines above the no-allocator
    // payload capacity are excluded there)
    for cfg in configs().into_iter().skip(1) {
        let wf = wellformed_spec().prop_map(|s| Input::History { lines: vec![Line::new(s.render(), false)] });
        ctx.run_proptest("generated-wellformed", cfg, n / 3, wf, check);
        for m in near_misses() {
            ctx.sweep_case("near-misses", cfg, &Input::History { lines: vec![Line::new(m, false)] }, check);
        }
    }
    // generated sentence, one random edit, checksum re-fixed half the time
    let mutated = (wellformed_spec(), any::<u16>(), 0u8..3, any::<u8>(), any::<bool>()).prop_map(|(s, pos, kind, byte, fix)| {
        let mut b = s.render();
        let i = (pos as usize * b.len()) >> 16;
        match kind {
            0 => {
                b.remove(i);
            }
            1 => b.insert(i, byte),
            _ => b[i] = byte,
        }
        if fix {
            build::fix_checksum(&mut b);
        }
        Input::History { lines: vec![Line::new(b, false)] }
    });
    ctx.run_proptest("generated-mutated", &STD, n, mutated, check);
    let raw = proptest::collection::vec(any::<u8>(), 0..80).prop_map(|b| Input::History { lines: vec![Line::new(b, false)] });
    ctx.run_proptest("random-bytes", &STD, n / 3, raw, check);
}
