//! Shared judging of line histories against R1 (sentence shape), the checksum rule and R2
//! (reassembly model). Used by C05, C06, C07 and, for classification, by C01 / C17 / C18.

use crate::adapter::{Config, ParserObj};
use crate::engine::Line;
use crate::outcome::{ErrCat, Outcome, Sent};
use crate::refmodel::build;
use crate::refmodel::nmea::{recognise, Fields, Shape};
use crate::refmodel::seq::{Model, Pred, Seen};
use crate::util::esc;

/// what the gate in front of the state machine should do with a line
#[derive(Clone, Debug)]
pub enum Gate {
    /// not of the stated shape: error, no trace
    Malformed(&'static str),
    /// well-formed, transmitted checksum differs from the computed one: checksum error
    BadChecksum(Fields),
    /// a '*' inside a field: outside the domain of C02 / C07 / C08 (see DESIGN.md, C02)
    StarInField(Fields),
    /// passes the gate; the reassembly model decides
    Pass(Fields),
}

pub fn gate(line: &[u8]) -> Gate {
    match recognise(line) {
        Shape::Rejected(why) => Gate::Malformed(why),
        Shape::WellFormed(f) => {
            if f.star_in_field {
                Gate::StarInField(f)
            } else if !f.checksum_ok() {
                Gate::BadChecksum(f)
            } else {
                Gate::Pass(f)
            }
        }
    }
}

pub const NOALLOC_CAP: usize = 384;

pub const SEQ: u32 = 1; // accept / reject, Complete / Incomplete, delivered payload (C05, C06)
pub const FIELDS: u32 = 2; // every sentence field equals the transmitted one (C05, C07)
pub const DECODE: u32 = 4; // decode flag semantics, message equals the unfragmented decode (C05, C07)
pub const CKS: u32 = 8; // checksum error carries (transmitted, computed) (C02)

#[derive(Clone, Debug)]
pub struct StepInfo {
    pub gate_pass: bool,
    pub pred: Option<Pred>,
    /// a group was open when the line arrived
    pub group_open_before: bool,
    pub k: u8,
    pub n: u8,
}

pub struct Fail {
    pub line_no: usize,
    pub expected: String,
    pub observed: String,
}

fn seen_of(o: &Outcome) -> Seen {
    match o {
        Outcome::Complete(_) => Seen::Complete,
        Outcome::Incomplete(_) => Seen::Incomplete,
        _ => Seen::Rejected,
    }
}

fn cmp_fields(f: &Fields, s: &Sent, data: &[u8]) -> Result<(), (String, String)> {
    macro_rules! chk {
        ($name:expr, $want:expr, $got:expr) => {
            if $want != $got {
                return Err((format!("{} = {:?}", $name, $want), format!("{} = {:?}", $name, $got)));
            }
        };
    }
    chk!("talker_id", f.expected_talker(), s.talker.as_str());
    chk!("report_type", f.expected_report(), s.report.as_str());
    chk!("num_fragments", f.num_fragments, s.num_fragments);
    chk!("fragment_number", f.fragment_number, s.fragment_number);
    chk!("message_id", f.message_id, s.message_id);
    chk!("channel", f.expected_channel(), s.channel);
    chk!("fill_bit_count", f.fill, s.fill);
    if data != s.data.as_slice() {
        return Err((format!("data = {:?}", esc(data)), format!("data = {:?}", esc(&s.data))));
    }
    Ok(())
}

/// What a fresh parser makes of `payload` sent as one unfragmented sentence with decoding on:
/// the reference for "equals the message obtained by sending the same payload unfragmented".
pub fn fresh_decode(cfg: &'static dyn Config, payload: &[u8], fill: u8) -> Outcome {
    let l = build::line(1, 1, None, b"A", payload, fill as u32);
    cfg.new_parser().parse(&l, true)
}

/// Judge one line's outcome; advances the model. `clauses` selects what is asserted.
pub fn judge_line(
    cfg: &'static dyn Config,
    model: &mut Model,
    line: &Line,
    out: &Outcome,
    clauses: u32,
) -> (StepInfo, Result<(), (String, String)>) {
    let g = gate(&line.bytes);
    let mut info = StepInfo { gate_pass: false, pred: None, group_open_before: model.open.is_some(), k: 0, n: 0 };
    if let Outcome::Panic(m) = out {
        // a panic is never a value or an error; keep the model in step as "rejected"
        if let Gate::Pass(f) = &g {
            let pred = model.predict(f.num_fragments, f.fragment_number, f.message_id, &f.payload);
            model.commit(&pred, f.num_fragments, f.fragment_number, f.message_id, &f.payload, Seen::Rejected);
            info.gate_pass = true;
            info.k = f.fragment_number;
            info.n = f.num_fragments;
            let out_of_domain = matches!(pred, Pred::Unspecified("not validly numbered"));
            info.pred = Some(pred);
            if out_of_domain {
                // outside the quantifier of C05/C06/C07 (C01 owns it)
                return (info, Ok(()));
            }
        }
        return (info, Err(("a result or an error value".into(), format!("panic: {}", m))));
    }
    match g {
        Gate::Malformed(why) => {
            if clauses & (SEQ | CKS) != 0 && !out.is_err() {
                return (info, Err((format!("an error (line is not well-formed: {})", why), out.brief())));
            }
            (info, Ok(()))
        }
        Gate::BadChecksum(f) => {
            if clauses & CKS != 0 {
                let want = ErrCat::Checksum { expected: f.transmitted, found: f.body_xor };
                match out {
                    Outcome::Err(e) if *e == want => {}
                    _ => {
                        return (
                            info,
                            Err((format!("Err(Checksum {{ expected: {:#04x} (transmitted), found: {:#04x} (computed) }})", f.transmitted, f.body_xor), out.brief())),
                        )
                    }
                }
            } else if clauses & SEQ != 0 && !out.is_err() {
                return (info, Err(("an error (checksum mismatch)".into(), out.brief())));
            }
            (info, Ok(()))
        }
        Gate::StarInField(f) => {
            // follow the implementation; nothing asserted
            let pred = Pred::Unspecified("'*' inside a field");
            model.commit(&pred, f.num_fragments, f.fragment_number, f.message_id, &f.payload, seen_of(out));
            if out.is_ok() {
                model.unknown = true;
            }
            (info, Ok(()))
        }
        Gate::Pass(f) => {
            info.gate_pass = true;
            info.k = f.fragment_number;
            info.n = f.num_fragments;
            if clauses & CKS != 0 {
                if let Outcome::Err(ErrCat::Checksum { .. }) = out {
                    return (info, Err(("no checksum error (transmitted and computed values agree)".into(), out.brief())));
                }
            }
            let (n, k, id) = (f.num_fragments, f.fragment_number, f.message_id);
            let pred = model.predict(n, k, id, &f.payload);
            info.pred = Some(pred.clone());
            let mut res: Result<(), (String, String)> = Ok(());
            // the no-allocator build holds at most 384 payload bytes per (reassembled) sentence:
            // a line that would exceed that must be rejected with an error and leave no trace
            if cfg.name() == "none" {
                let held = model.open.as_ref().map(|g| g.payload.len()).unwrap_or(0);
                let over_field = f.payload.len() > NOALLOC_CAP;
                let over_total = matches!(pred, Pred::Continue | Pred::Deliver(_)) && held + f.payload.len() > NOALLOC_CAP;
                if over_field || over_total {
                    info.pred = Some(Pred::Reject("exceeds the 384-byte capacity of the no-allocator build"));
                    if clauses & SEQ != 0 && !out.is_err() {
                        res = Err((format!("an error (payload / reassembled total above {} bytes in the no-allocator build)", NOALLOC_CAP), out.brief()));
                    }
                    if out.is_ok() {
                        model.unknown = true;
                        model.open = None;
                    }
                    return (info, res);
                }
                if matches!(pred, Pred::Unspecified(_)) && held + f.payload.len() > NOALLOC_CAP {
                    model.commit(&pred, n, k, id, &f.payload, seen_of(out));
                    model.unknown = true;
                    model.open = None;
                    return (info, res);
                }
            }
            // capacity of the no-allocator build (C18's business): such cases are excluded by callers
            match &pred {
                Pred::Single | Pred::Deliver(_) => {
                    let data: Vec<u8> = match &pred {
                        Pred::Deliver(p) => p.clone(),
                        _ => f.payload.clone(),
                    };
                    let what = if matches!(pred, Pred::Single) { "an unfragmented sentence" } else { "the final in-sequence fragment" };
                    if line.decode {
                        let fresh = fresh_decode(cfg, &data, f.fill);
                        match (&fresh, out) {
                            (Outcome::Complete(fs), Outcome::Complete(s)) => {
                                if clauses & SEQ != 0 && s.data != data {
                                    res = Err((format!("Complete with data {:?} ({})", esc(&data), what), out.brief()));
                                } else if clauses & FIELDS != 0 {
                                    res = cmp_fields(&f, s, &data);
                                }
                                if res.is_ok() && clauses & DECODE != 0 {
                                    if s.message.is_none() {
                                        res = Err(("message = Some(..) (decoding was requested)".into(), "message = None".into()));
                                    } else if s.message != fs.message {
                                        res = Err((
                                            format!("the message an unfragmented sentence with the same payload decodes to: {}", crate::util::clip(fs.message.as_deref().unwrap_or("None"), 300)),
                                            crate::util::clip(s.message.as_deref().unwrap_or("None"), 300),
                                        ));
                                    }
                                }
                            }
                            (Outcome::Err(_), Outcome::Err(_)) => {}
                            (Outcome::Err(_), o) => {
                                if clauses & (SEQ | DECODE) != 0 {
                                    res = Err(("an error (the payload does not decode when sent unfragmented)".into(), o.brief()));
                                }
                            }
                            (Outcome::Complete(_), o) => {
                                if clauses & (SEQ | DECODE) != 0 {
                                    res = Err((format!("Complete ({}; the same payload decodes when sent unfragmented)", what), o.brief()));
                                }
                            }
                            _ => {}
                        }
                    } else {
                        match out {
                            Outcome::Complete(s) => {
                                if clauses & SEQ != 0 && s.data != data {
                                    res = Err((format!("Complete with data {:?} ({})", esc(&data), what), out.brief()));
                                } else if clauses & FIELDS != 0 {
                                    res = cmp_fields(&f, s, &data);
                                }
                                if res.is_ok() && clauses & DECODE != 0 && s.message.is_some() {
                                    res = Err(("message = None (decoding was not requested)".into(), "message = Some(..)".into()));
                                }
                            }
                            o => {
                                if clauses & (SEQ | DECODE) != 0 {
                                    res = Err((format!("Complete with data {:?} ({}, decode = false)", esc(&data), what), o.brief()));
                                }
                            }
                        }
                    }
                    model.commit(&pred, n, k, id, &f.payload, seen_of(out));
                }
                Pred::Open | Pred::Continue => {
                    match out {
                        Outcome::Incomplete(s) => {
                            if clauses & SEQ != 0 && s.data != f.payload {
                                res = Err((format!("Incomplete carrying the fragment's own payload {:?}", esc(&f.payload)), out.brief()));
                            } else if clauses & FIELDS != 0 {
                                res = cmp_fields(&f, s, &f.payload);
                            }
                            if res.is_ok() && clauses & DECODE != 0 && s.message.is_some() {
                                res = Err(("message = None on an incomplete fragment".into(), "message = Some(..)".into()));
                            }
                        }
                        o => {
                            if clauses & SEQ != 0 {
                                let what = if matches!(pred, Pred::Open) { "fragment 1 opens a group" } else { "in-sequence continuation of the open group" };
                                res = Err((format!("Incomplete ({})", what), o.brief()));
                            }
                        }
                    }
                    model.commit(&pred, n, k, id, &f.payload, seen_of(out));
                }
                Pred::Reject(why) => {
                    if clauses & SEQ != 0 && !out.is_err() {
                        res = Err((format!("an error (fragment {} of {}, id {:?}: {})", k, n, id, why), out.brief()));
                    }
                    model.commit(&pred, n, k, id, &f.payload, Seen::Rejected);
                }
                Pred::Unspecified(_) => {
                    // a sentence with fragment number 1 (or 0) continues nothing, whatever its count says:
                    // if it is accepted, the payload it reports is its own, unmodified (C07)
                    if clauses & FIELDS != 0 && k <= 1 {
                        if let Some(s) = out.sent() {
                            res = cmp_fields(&f, s, &f.payload);
                        }
                    }
                    model.commit(&pred, n, k, id, &f.payload, seen_of(out));
                    if line.decode && out.is_err() {
                        // with decoding on, an error may also mean "accepted as the final fragment,
                        // group consumed, payload did not decode": the model cannot tell which
                        model.unknown = true;
                        model.open = None;
                    }
                }
            }
            (info, res)
        }
    }
}

/// Run a whole history on one fresh parser and judge every line. Returns per-line info and the
/// first failure, if any.
pub fn judge_history(cfg: &'static dyn Config, lines: &[Line], clauses: u32) -> (Vec<(Outcome, StepInfo)>, Option<Fail>) {
    let mut p = cfg.new_parser();
    judge_history_on(cfg, &mut *p, lines, clauses)
}

pub fn judge_history_on(cfg: &'static dyn Config, p: &mut dyn ParserObj, lines: &[Line], clauses: u32) -> (Vec<(Outcome, StepInfo)>, Option<Fail>) {
    // Usually one model. In the no-allocator build, after a fragment was refused for capacity, two
    // behaviours are within the statements: the open group is kept as it was (the line left no trace),
    // or the group is given up. Both candidates are tracked; a line is judged against each, and only
    // the candidates that agree with what the parser did survive. No surviving candidate = violation.
    let mut models: Vec<Model> = vec![Model::new()];
    let mut steps = Vec::with_capacity(lines.len());
    let mut fail = None;
    for (i, l) in lines.iter().enumerate() {
        let out = p.parse(&l.bytes, l.decode);
        let mut survivors: Vec<Model> = Vec::new();
        let mut first: Option<(StepInfo, Result<(), (String, String)>)> = None;
        let mut first_model: Option<Model> = None;
        for m in models.iter() {
            let mut mc = m.clone();
            let (info, r) = judge_line(cfg, &mut mc, l, &out, clauses);
            let capacity_hit = matches!(info.pred, Some(Pred::Reject("exceeds the 384-byte capacity of the no-allocator build")));
            if r.is_ok() {
                if capacity_hit && out.is_err() && mc.open.is_some() {
                    // the alternative: the group was given up
                    let mut alt = mc.clone();
                    alt.open = None;
                    survivors.push(alt);
                }
                survivors.push(mc.clone());
            }
            if first.is_none() {
                first = Some((info, r));
                first_model = Some(mc);
            }
        }
        let (info, r) = first.unwrap();
        if survivors.is_empty() {
            if let (Err((e, o)), None) = (&r, &fail) {
                fail = Some(Fail { line_no: i, expected: e.clone(), observed: o.clone() });
            }
            models = vec![first_model.unwrap()];
            steps.push((out, info));
        } else {
            // report the surviving candidate's view of the line
            if r.is_err() {
                let mut mc = models.iter().find_map(|m| {
                    let mut c = m.clone();
                    let (inf, rr) = judge_line(cfg, &mut c, l, &out, clauses);
                    if rr.is_ok() { Some(inf) } else { None }
                });
                steps.push((out, mc.take().unwrap_or(info)));
            } else {
                steps.push((out, info));
            }
            survivors.dedup_by(|a, b| a.open == b.open && a.unknown == b.unknown);
            survivors.truncate(4);
            models = survivors;
        }
    }
    (steps, fail)
}

/// the no-allocator build cannot hold this history's payloads (C18 decides those)
pub fn exceeds_noalloc_capacity(lines: &[Line]) -> bool {
    let mut total = 0usize;
    for l in lines {
        if let Shape::WellFormed(f) = recognise(&l.bytes) {
            if f.payload.len() > 384 {
                return true;
            }
            if f.num_fragments >= 2 || f.num_fragments == 0 {
                if f.fragment_number <= 1 {
                    total = 0;
                }
                total += f.payload.len();
                if total > 384 {
                    return true;
                }
            }
        }
    }
    false
}

pub fn render_steps(lines: &[Line], steps: &[(Outcome, StepInfo)]) -> String {
    let mut s = String::new();
    for (i, (l, (o, info))) in lines.iter().zip(steps.iter()).enumerate() {
        if i >= 12 {
            s.push_str(&format!(" | … {} more", lines.len() - 12));
            break;
        }
        if i > 0 {
            s.push_str(" | ");
        }
        s.push_str(&format!(
            "[{}] {:?} decode={} -> {}{}",
            i,
            crate::util::clip(&esc(&l.bytes), 90),
            l.decode,
            crate::util::clip(&o.brief(), 140),
            match &info.pred {
                Some(p) => format!(" (model: {})", crate::util::clip(&format!("{:?}", p), 60)),
                None => String::new(),
            }
        ));
    }
    s
}
