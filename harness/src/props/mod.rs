//! One module per property: generator wiring, oracle, classification.

pub mod payload;

pub mod hist;

pub mod c01;
pub mod c02;
pub mod c03;
pub mod c04;
pub mod c05;
pub mod c06;
pub mod c07;
pub mod c08;
pub mod c09;
pub mod c10;
pub mod c11;
pub mod c12;
pub mod c13;
pub mod c14;
pub mod c15;
pub mod c16;
pub mod c17;
pub mod c18;
pub mod c19;
pub mod c20;

use crate::engine::{CheckFn, Ctx};

pub const ALL: [&str; 20] = [
    "C01", "C02", "C03", "C04", "C05", "C06", "C07", "C08", "C09", "C10", "C11", "C12", "C13", "C14", "C15", "C16", "C17", "C18", "C19", "C20",
];

pub fn check_fn(prop: &str) -> CheckFn {
    match prop {
        "C01" => c01::check,
        "C02" => c02::check,
        "C03" => c03::check,
        "C04" => c04::check,
        "C17" => c17::check,
        "C18" => c18::check,
        "C19" => c19::check,
        "C20" => c20::check,
        "C08" => c08::check,
        "C07" => c07::check,
        "C06" => c06::check,
        "C05" => c05::check,
        "C09" => c09::check,
        "C10" => c10::check,
        "C11" => c11::check,
        "C12" => c12::check,
        "C13" => c13::check,
        "C14" => c14::check,
        "C15" => c15::check,
        "C16" => c16::check,
        _ => crate::engine::infra_error(&format!("no check implemented for {}", prop)),
    }
}

pub fn run(prop: &str, ctx: &mut Ctx) {
    // AISVERIF_ONLY_FUZZ=1 (testing aid): skip the generated part and run only the campaigns
    if std::env::var("AISVERIF_ONLY_FUZZ").is_err() {
        run_generated(prop, ctx);
    }
    if ctx.tier == crate::engine::Tier::Thorough && ctx.violations.is_empty() {
        let check = check_fn(prop);
        // fixed numbers of executions; fewer for the two properties whose oracle runs many parsers per input
        let (l_seeded, l_empty, p_seeded, p_empty) = match prop {
            "C17" => (200_000, 60_000, 0, 0),
            "C18" => (400_000, 150_000, 1_000_000, 300_000),
            _ => (1_200_000, 400_000, 2_000_000, 500_000),
        };
        if crate::fuzzglue::takes_history(prop) {
            ctx.fuzz_campaign("fz_lines", l_seeded, true, check);
            ctx.fuzz_campaign("fz_lines", l_empty, false, check);
        }
        if crate::fuzzglue::takes_payload(prop) || crate::fuzzglue::takes_unarmor(prop) {
            ctx.fuzz_campaign("fz_payload", p_seeded, true, check);
            ctx.fuzz_campaign("fz_payload", p_empty, false, check);
        }
    }
}

fn run_generated(prop: &str, ctx: &mut Ctx) {
    match prop {
        "C01" => c01::run(ctx),
        "C02" => c02::run(ctx),
        "C03" => c03::run(ctx),
        "C04" => c04::run(ctx),
        "C17" => c17::run(ctx),
        "C18" => c18::run(ctx),
        "C19" => c19::run(ctx),
        "C20" => c20::run(ctx),
        "C08" => c08::run(ctx),
        "C07" => c07::run(ctx),
        "C06" => c06::run(ctx),
        "C05" => c05::run(ctx),
        "C09" => c09::run(ctx),
        "C10" => c10::run(ctx),
        "C11" => c11::run(ctx),
        "C12" => c12::run(ctx),
        "C13" => c13::run(ctx),
        "C14" => c14::run(ctx),
        "C15" => c15::run(ctx),
        "C16" => c16::run(ctx),
        _ => crate::engine::infra_error(&format!("no check implemented for {}", prop)),
    }
}
