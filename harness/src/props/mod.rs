//! One module per property: generator wiring, oracle, classification.

pub mod payload;

pub mod c04;
pub mod c09;
pub mod c10;
pub mod c11;
pub mod c12;
pub mod c13;
pub mod c14;
pub mod c15;
pub mod c16;

use crate::engine::{CheckFn, Ctx};

pub const ALL: [&str; 20] = [
    "C01", "C02", "C03", "C04", "C05", "C06", "C07", "C08", "C09", "C10", "C11", "C12", "C13", "C14", "C15", "C16", "C17", "C18", "C19", "C20",
];

pub fn check_fn(prop: &str) -> CheckFn {
    match prop {
        "C04" => c04::check,
        "C09" => c09::check,
        "C10" => c10::check,
        "C11" => c11::check,
        "C12" => c12::check,
        "C13" => c13::check,
        "C14" => c14::check,
        "C15" => c15::check,
        "C16" => c16::check,
        _ => crate::engine::infra_error(&format!("no check implemented for {}", prop)),
    }
}

pub fn run(prop: &str, ctx: &mut Ctx) {
    match prop {
        "C04" => c04::run(ctx),
        "C09" => c09::run(ctx),
        "C10" => c10::run(ctx),
        "C11" => c11::run(ctx),
        "C12" => c12::run(ctx),
        "C13" => c13::run(ctx),
        "C14" => c14::run(ctx),
        "C15" => c15::run(ctx),
        "C16" => c16::run(ctx),
        _ => crate::engine::infra_error(&format!("no check implemented for {}", prop)),
    }
}
