//! C07 — the sentence reports exactly the transmitted NMEA fields and raw payload.

use crate::adapter::{Config, STD};
use crate::engine::{Ctx, Input, Line, Rec, Verdict};
use crate::gen::sentence::{inorder_group_history, wellformed_spec};
use crate::props::hist::{gate, judge_history, render_steps, Gate, DECODE, FIELDS};
use proptest::prelude::*;

pub fn check(_sub: &str, cfg: &'static dyn Config, input: &Input, rec: &mut Rec) -> Verdict {
    let lines = match input {
        Input::History { lines } => lines,
        _ => crate::engine::infra_error("C07 expects a history"),
    };
    for l in lines {
        if let Gate::StarInField(_) = gate(&l.bytes) {
            return Verdict::Excluded("'*' inside a field");
        }
    }
    let (steps, fail) = judge_history(cfg, lines, FIELDS | DECODE);
    rec.evals += lines.len() as u64;
    // non-trivial: an accepted line differs from the canonical AIVDM,1,1,,A header somewhere
    rec.nontrivial = lines.iter().zip(steps.iter()).any(|(l, (o, _))| {
        o.is_ok()
            && match gate(&l.bytes) {
                Gate::Pass(f) => {
                    &f.talker != b"AI" || &f.report != b"VDM" || f.num_fragments != 1 || f.message_id.is_some() || f.channel_field != b"A" || f.fill != 0 || f.has_tag || f.delim != b'!'
                }
                _ => false,
            }
    });
    for (l, (o, _)) in lines.iter().zip(steps.iter()) {
        if let Gate::Pass(f) = gate(&l.bytes) {
            if f.has_tag {
                rec.class("tag-block");
            }
            if f.channel_field.is_empty() {
                rec.class("empty-channel");
            }
            if f.channel_field.first().map(|b| *b >= 0x80).unwrap_or(false) {
                rec.class("channel-byte-above-0x7f");
            }
            if f.expected_talker() == "Unknown" {
                rec.class("unknown-talker");
            }
            if l.decode && o.is_err() {
                rec.class("decode-requested-payload-undecodable");
            }
            if l.decode && o.is_ok() {
                rec.class("decode-requested-payload-decodable");
            }
        }
    }
    if rec.want_note {
        rec.note = Some(render_steps(lines, &steps));
    }
    match fail {
        Some(f) => Verdict::fail(format!("line {}: {}", f.line_no, f.expected), f.observed),
        None => Verdict::Pass,
    }
}

pub fn run(ctx: &mut Ctx) {
    ctx.rule = "well-formed sentences with every field randomised (ten talker ids, near misses and random pairs; VDM / VDO / random; counts, numbers and ids 0..255 with leading zeros; empty, one-byte, multi-byte and >= 0x80 channel; payload of 1..120 arbitrary bytes except ',' and '*', or a reference-encoded message; fill 0..5; tag block; '!' or '$'; trailing CR LF or junk) fed to a fresh parser once with decode = false and once with decode = true; talker / report enums, counts, Option id, channel = first byte as char, fill and data must equal what the builder transmitted; decode = false gives message None and Ok even for an undecodable payload; decode = true gives the same fields and the message an unfragmented sentence decodes to, or an error. Completed groups (from C05's generator) are compared the same way. Non-trivial = an accepted line differs from the canonical AIVDM,1,1,,A header; distinct by the lines.".into();
    ctx.assumptions = vec!["fields contain no '*' (see DESIGN.md, C02 domain note)".into(), "sentence-level message_type is C19's and is not compared here".into()];
    ctx.replay_regressions(check);
    let n = ctx.tier.pick(240_000, 2_000_000);
    let strat = wellformed_spec().prop_map(|s| {
        let b = s.render();
        Input::History { lines: vec![Line::new(b.clone(), false), Line::new(b, true)] }
    });
    ctx.run_proptest("single-sentences", &STD, n, strat, check);
    let n = ctx.tier.pick(24_000, 200_000);
    ctx.run_proptest("completed-groups", &STD, n, inorder_group_history(), check);
    // the fields a sentence reports are the same in every build (the no-allocator build differs only by
    // rejecting payloads beyond its capacity, which the judge knows)
    for cfg in crate::adapter::configs().into_iter().skip(1) {
        let strat = wellformed_spec().prop_map(|s| {
            let b = s.render();
            Input::History { lines: vec![Line::new(b.clone(), false), Line::new(b, true)] }
        });
        ctx.run_proptest("single-sentences", cfg, n, strat, check);
        ctx.run_proptest("completed-groups", cfg, n / 2, inorder_group_history(), check);
    }
    // counts and numbers over their whole range (0..255) after any history: a sentence numbered 1 (or 0)
    // continues nothing, so if it is accepted its fields and payload are its own
    let odd = (crate::gen::sentence::adversarial_events(10), proptest::collection::vec((prop::sample::select(vec![(0u32, 1u32), (0, 0), (1, 0), (2, 0), (0, 1), (255, 0), (0, 1)]), prop_oneof![Just(None), (0u32..4).prop_map(Some)], crate::gen::sentence::token_payload(), any::<bool>()), 1..4)).prop_map(|(evs, odds)| {
        let mut lines: Vec<Line> = evs.iter().map(crate::gen::sentence::render_ev).collect();
        for ((n, k), id, p, decode) in odds {
            lines.push(Line::new(crate::refmodel::build::line(n, k, id, b"B", &p, 0), decode));
        }
        Input::History { lines }
    });
    ctx.run_proptest("odd-numbering-after-history", &STD, n, odd, check);
    address_sweep(ctx);
}

/// "every 2+3 byte address": all 65 536 talker pairs in front of VDM (a ',' or '*' in the address makes
/// the line a different shape, which the recogniser tells us, and the check then asserts nothing about
/// fields); every one-byte replacement and every upper/lower-case spelling of VDM / VDO behind each of
/// the ten known talkers' first entry; in the thorough tier all 2^24 report types behind AI.
fn address_sweep(ctx: &mut Ctx) {
    let sub = "address-sweep";
    let mk = |addr: [u8; 5], decode: bool| {
        let mut l = b"!".to_vec();
        l.extend_from_slice(&addr);
        l.extend_from_slice(b",1,1,,A,15,0*00");
        crate::refmodel::build::fix_checksum(&mut l);
        Input::History { lines: vec![Line::new(l, decode)] }
    };
    for a in 0..=255u8 {
        for b in 0..=255u8 {
            if a == b'\n' || b == b'\n' {
                continue;
            }
            ctx.sweep_case(sub, &STD, &mk([a, b, b'V', b'D', b'M'], b & 1 == 1), check);
        }
    }
    for base in [*b"VDM", *b"VDO"] {
        for pos in 0..3 {
            for v in 0..=255u8 {
                if v == b'\n' {
                    continue;
                }
                let mut r = base;
                r[pos] = v;
                ctx.sweep_case(sub, &STD, &mk([b'A', b'I', r[0], r[1], r[2]], v & 1 == 0), check);
            }
        }
        for mask in 0..8u8 {
            let mut r = base;
            for (i, c) in r.iter_mut().enumerate() {
                if mask >> i & 1 == 1 {
                    *c = c.to_ascii_lowercase();
                }
            }
            for t in crate::gen::sentence::TALKERS.iter() {
                for tmask in 0..4u8 {
                    let mut tt = **t;
                    for (i, c) in tt.iter_mut().enumerate() {
                        if tmask >> i & 1 == 1 {
                            *c = c.to_ascii_lowercase();
                        }
                    }
                    ctx.sweep_case(sub, &STD, &mk([tt[0], tt[1], r[0], r[1], r[2]], true), check);
                }
            }
        }
    }
    ctx.mark_exhaustive(sub, "all 2-byte talker ids before VDM; all one-byte replacements and case spellings of VDM / VDO");
    if ctx.tier == crate::engine::Tier::Thorough {
        // 2^24 report types, spread over the worker threads
        let shards = 16u32;
        let mut forks: Vec<Ctx> = (0..shards).map(|_| ctx.fork()).collect();
        std::thread::scope(|sc| {
            for (i, f) in forks.iter_mut().enumerate() {
                sc.spawn(move || {
                    let lo = (i as u32) * (1 << 24) / shards;
                    let hi = (i as u32 + 1) * (1 << 24) / shards;
                    for x in lo..hi {
                        let r = [(x >> 16) as u8, (x >> 8) as u8, x as u8];
                        if r.contains(&b'\n') {
                            continue;
                        }
                        f.sweep_case("report-type-sweep", &STD, &mk([b'A', b'I', r[0], r[1], r[2]], false), check);
                    }
                });
            }
        });
        for f in forks {
            ctx.merge(f);
        }
        ctx.mark_exhaustive("report-type-sweep", "all 2^24 three-byte report types behind talker AI");
    }
}
