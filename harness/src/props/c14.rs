//! C14 — variable-length messages decode what is present; short payloads are rejected.

use crate::adapter::{configs, Config, STD};
use crate::engine::{Ctx, Input, Rec, Verdict};
use crate::gen::payload::{payload_inputs, LenMode};
use crate::props::payload::check_input;
use crate::refmodel::armor;
use crate::refmodel::layout::{self, set_bits, Prop, RefMsg, SUPPORTED};
use crate::util::Mix;

/// non-trivial: the payload is below its type's mandatory length (must be rejected), or its
/// decoding carries an expectation that depends on the length (list sizes, optional parts,
/// text length, DTE default)
fn nontrivial(r: &RefMsg, _bytes: &[u8]) -> bool {
    match r {
        RefMsg::TooShort { .. } => true,
        RefMsg::Msg(d) => d.fields.iter().any(|f| f.checks.iter().any(|(p, _)| *p == Prop::C14)),
        _ => false,
    }
}

pub fn check(_sub: &str, cfg: &'static dyn Config, input: &Input, rec: &mut Rec) -> Verdict {
    check_input(Prop::C14, cfg, input, nontrivial, rec)
}

pub fn run(ctx: &mut Ctx) {
    ctx.rule = "for every supported type: every byte length from 0 to the protocol maximum + 8 with zero, all-one and random contents through messages::parse, and every character length x fill 0..5 through armouring + AisParser::parse; below the mandatory part the result must be an error, at and above it Ok with the number of list elements / optional parts / text characters that the bits present allow, every reported value equal to the bits at its position. Non-trivial = below the mandatory length, or carrying a length-dependent expectation; distinct by payload bytes.".into();
    ctx.assumptions = vec![
        "not pinned (nothing asserted but totality): type 15 list shapes at lengths other than 88/110/160 bits (+ padding); type 5 DTE when a partial character follows a truncated destination; type 17 of 80..119 bits; whether an over-long payload is accepted".into(),
        "type 15: an all-zero second request may be reported or dropped".into(),
    ];
    ctx.replay_regressions(check);
    let mut mix = Mix::new(ctx.seed, 14);
    let reps = ctx.tier.pick(4, 60);
    for &t in SUPPORTED.iter() {
        let max = layout::bytes_after_armor(layout::length_limits(t).unwrap().1);
        for len in 0..=max + 8 {
            for rep in 0..(2 + reps) {
                let mut b = match rep {
                    0 => vec![0u8; len],
                    1 => vec![0xffu8; len],
                    _ => mix.bytes(len),
                };
                if len > 0 {
                    set_bits(&mut b, 0, 6, t as u64);
                }
                let parts: Vec<u64> = if t == 24 && len >= 5 { vec![0, 1, 2] } else { vec![9] };
                for part in parts {
                    if part != 9 {
                        set_bits(&mut b, 38, 2, part);
                    }
                    if ctx.sub_failed("every-byte-length") {
                        return;
                    }
                    for cfg in configs() {
                        ctx.sweep_case("every-byte-length", cfg, &Input::Payload { bytes: b.clone() }, check);
                    }
                }
            }
        }
    }
    ctx.mark_exhaustive("every-byte-length", "every supported type x every byte length 0..=max+8 x {zeros, ones, random contents} (type 24: parts A, B and other)");

    // the way a receiver sees it: every character length x every fill
    let reps = ctx.tier.pick(1, 12);
    for &t in SUPPORTED.iter() {
        let max_chars = ((layout::length_limits(t).unwrap().1 + 5) / 6 + 4).min(380);
        for nchars in 1..=max_chars {
            for fill in 0..6u8 {
                for _ in 0..reps {
                    let raw = mix.bytes(nchars);
                    let mut chars: Vec<u8> = raw.iter().map(|b| armor::ALPHABET[(*b & 63) as usize]).collect();
                    // first character carries the type; for type 24 the seventh carries the part
                    chars[0] = armor::armor_char(t);
                    if ctx.sub_failed("every-char-length-and-fill") {
                        return;
                    }
                    let input = Input::SentPayload { chars, fill, cuts: vec![] };
                    for cfg in configs() {
                        ctx.sweep_case("every-char-length-and-fill", cfg, &input, check);
                    }
                }
            }
        }
    }
    ctx.mark_exhaustive("every-char-length-and-fill", "every supported type x every payload length in characters 1..=max+4 x fill 0..=5, random contents, through the sentence path");

    let n = ctx.tier.pick(160_000, 1_000_000);
    ctx.run_proptest("random-any-length", &STD, n, payload_inputs(SUPPORTED.to_vec(), LenMode::Any, Prop::C14, 5, 0.2), check);
    // the same generated payloads, a tenth of them through the sentence path (fragments included), on the
    // alloc and no-allocator builds
    for cfg in crate::adapter::configs().into_iter().skip(1) {
        let n_other = ctx.tier.pick(20_000, 200_000);
        ctx.run_proptest("random-assignments", cfg, n_other, crate::gen::payload::payload_inputs(SUPPORTED.to_vec(), crate::gen::payload::LenMode::Standard, Prop::C14, 8, 0.15), check);
    }
    // every field inverted as a whole and bit by bit against all-zero and all-one backgrounds
    for &t in crate::refmodel::layout::SUPPORTED.iter() {
        for len in crate::refmodel::layout::standard_lengths(t) {
            let mut inputs = Vec::new();
            crate::gen::payload::field_sweep(t, len, |b| inputs.push(b));
            for b in inputs {
                ctx.sweep_case("field-sweep", &crate::adapter::STD, &Input::Payload { bytes: b }, check);
            }
        }
    }
    ctx.mark_exhaustive("field-sweep", "every field of every specified shape x {inverted whole, each single bit inverted} x {all-zero, all-one background}");
    // every pair of fields at their special values (see gen::payload::pairwise_specials)
    {
        let mut mix = crate::util::Mix::new(ctx.seed, 0xa11);
        let reps = ctx.tier.pick(1, 6);
        for (t, len, part) in crate::gen::payload::pairwise_shapes() {
            
            for base in 0..4u8 {
                crate::gen::payload::pairwise_specials(t, len, part, if base == 0 { reps } else { 1 }, base, &mut mix, |b| {
                    ctx.sweep_case("pairwise-special-values", &crate::adapter::STD, &Input::Payload { bytes: b }, check);
                });
            }
        }
        ctx.mark_exhaustive("pairwise-special-values", "every pair of fields of every layout (longest specified shape, and the shortest for the variable ones) x each field's special values (0, 1, max, max-1, 'not available' codes, MMSI station classes, time-stamp codes 60..63; all values of fields up to 3 bits), against three backgrounds: the other bits random, all zero, and 'everything unavailable'");
    }
    // decoding after an arbitrary history, in an unfragmented sentence or in a closing line without a group
    {
        let n_after = ctx.tier.pick(24_000, 300_000);
        ctx.run_proptest("after-history", &crate::adapter::STD, n_after, crate::gen::payload::payload_inputs_after(SUPPORTED.to_vec(), Prop::C14), check);
    }
}
