//! C10 — coordinates sign-extended and scaled exactly; speeds / courses / draught scaled.

use crate::adapter::{configs, Config, STD};
use crate::engine::{Ctx, Input, Rec, Verdict};
use crate::gen::payload::{payload_inputs, LenMode};
use crate::props::payload::check_input;
use crate::refmodel::layout::{self, refdecode, set_bits, signed, ulp_f32, FieldExp, Pat, Prop, RefMsg, ULP_COORD, ULP_COORD_T27};
use crate::typed;
use crate::util::Mix;
use serde_json::json;

const COORD_TYPES: [u8; 11] = [1, 2, 3, 4, 9, 11, 17, 18, 19, 21, 27];

/// non-trivial: some C10-owned expectation has a non-zero exact value
fn nontrivial(r: &RefMsg, _bytes: &[u8]) -> bool {
    match r {
        RefMsg::Msg(d) => d.fields.iter().flat_map(|f| f.checks.iter()).any(|(p, pat)| {
            *p == Prop::C10
                && match pat {
                    Pat::SomeFloatIfPresent { exact, .. } | Pat::Float { exact, .. } => *exact != 0.0,
                    _ => false,
                }
        }),
        _ => false,
    }
}

pub fn check(_sub: &str, cfg: &'static dyn Config, input: &Input, rec: &mut Rec) -> Verdict {
    check_input(Prop::C10, cfg, input, nontrivial, rec)
}

fn c10_fields(t: u8) -> Vec<FieldExp> {
    let len = layout::standard_lengths(t)[0];
    let mut b = vec![0u8; len];
    set_bits(&mut b, 0, 6, t as u64);
    match refdecode(&b) {
        RefMsg::Msg(d) => d.fields.into_iter().filter(|f| f.checks.iter().any(|(p, _)| *p == Prop::C10 || *p == Prop::C11) && f.width <= 28).collect(),
        _ => vec![],
    }
}

/// Exhaustive sweep of one coordinate field with typed access. Returns the first raw value whose
/// typed comparison fails (to be re-judged generically), and counts.
fn sweep_coord(t: u8, len: usize, f: &FieldExp, is_lon: bool, lo: u64, hi: u64, seed: u64) -> (u64, u64, Option<Vec<u8>>) {
    let (div, sentinel, ulps) = match (f.width, is_lon) {
        (28, _) => (600_000.0, 108_600_000i64, ULP_COORD),
        (27, _) => (600_000.0, 54_600_000i64, ULP_COORD),
        (18, _) => (600.0, 108_600i64, if t == 27 { ULP_COORD_T27 } else { ULP_COORD }),
        (17, _) => (600.0, 54_600i64, if t == 27 { ULP_COORD_T27 } else { ULP_COORD }),
        _ => unreachable!(),
    };
    let mut mix = Mix::new(seed, (t as u64) << 40 | (f.start as u64) << 20 | lo);
    let mut base = mix.bytes(len);
    set_bits(&mut base, 0, 6, t as u64);
    let mut evals = 0u64;
    let mut nontriv = 0u64;
    for raw in lo..hi {
        if raw & 0xfff == 0 {
            // fresh neighbours every 4096 values
            base = mix.bytes(len);
            set_bits(&mut base, 0, 6, t as u64);
            if t == 24 {
                set_bits(&mut base, 38, 2, 1);
            }
        }
        set_bits(&mut base, f.start, f.width, raw);
        let v = signed(raw, f.width);
        evals += 1;
        if v == sentinel {
            continue; // C11's
        }
        if v != 0 {
            nontriv += 1;
        }
        let exact = v as f64 / div;
        let ok = match typed::decode_nav(&base) {
            Some(nav) => {
                let o = if is_lon { nav.lon } else { nav.lat };
                match o {
                    // a non-sentinel raw must be reported (C11 judges this too)
                    None => false,
                    Some(x) => ((x as f64) - exact).abs() <= ulps as f64 * ulp_f32(exact) * 1.000001,
                }
            }
            None => false,
        };
        if !ok {
            return (evals, nontriv, Some(base.clone()));
        }
    }
    (evals, nontriv, None)
}

pub fn run(ctx: &mut Ctx) {
    ctx.rule = "coordinate / speed / course / draught raws are written into their spans (boundary values, both sides of the sign bit, sentinel +-2, uniform) with random neighbours; the reported value must equal the exact rational raw/600000 (raw/600 for types 17, 27), raw/10, or raw, within 2 ulp of f32 (3 for type 27; 1 for tenths; 0 for undivided). Exhaustive sweeps: all 2^18 / 2^17 raws of types 17 and 27 and all speed/course/draught raws (quick and thorough); all 2^28 / 2^27 raws of every layout carrying them (thorough). Non-trivial = raw is neither 0 nor the sentinel; distinct by (layout, field, raw) in sweeps and by payload bytes in generated cases.".into();
    ctx.assumptions = vec![
        "tolerance stated in ulps because 'correct to single-precision rounding' admits more than one evaluation order".into(),
        "sentinel raws are C11's and are skipped here; a non-sentinel raw reported as absent fails here as well as in C11".into(),
        "exhaustive sweeps use typed access to the std build; any disagreement is re-judged through the generic Debug-tree comparison before it is reported".into(),
    ];
    ctx.replay_regressions(check);

    // (a) small spaces, exhaustively, through the generic path: speeds, courses, draught
    let mut mix = Mix::new(ctx.seed, 10);
    for &t in [1u8, 2, 3, 5, 9, 18, 19, 27].iter() {
        let len = layout::standard_lengths(t)[0];
        let fields: Vec<FieldExp> = {
            let mut b = vec![0u8; len];
            set_bits(&mut b, 0, 6, t as u64);
            match refdecode(&b) {
                RefMsg::Msg(d) => d.fields.into_iter().filter(|f| f.checks.iter().any(|(p, _)| *p == Prop::C10) && f.width <= 12).collect(),
                _ => vec![],
            }
        };
        for f in fields {
            for raw in 0..(1u64 << f.width) {
                let mut b = mix.bytes(len);
                set_bits(&mut b, 0, 6, t as u64);
                set_bits(&mut b, f.start, f.width, raw);
                if ctx.sub_failed("small-fields-exhaustive") {
                    break;
                }
                ctx.sweep_case("small-fields-exhaustive", &STD, &Input::Payload { bytes: b }, check);
            }
        }
    }
    ctx.mark_exhaustive("small-fields-exhaustive", "every raw value of every speed (2^10, 2^6), course (2^12, 2^9) and draught (2^8) field in types 1-3, 5, 9, 18, 19, 27");

    // (b) coordinate sweeps with typed access
    let thorough = ctx.tier == crate::engine::Tier::Thorough;
    let mut jobs: Vec<(u8, usize, FieldExp, bool, u64, u64)> = Vec::new();
    for &t in COORD_TYPES.iter() {
        let len = layout::standard_lengths(t)[0];
        for f in c10_fields(t) {
            let is_lon = f.path == "longitude";
            if !is_lon && f.path != "latitude" {
                continue;
            }
            let full = 1u64 << f.width;
            if f.width <= 18 || thorough {
                // exhaustive, chunked for the thread pool
                let chunk = 1u64 << 22;
                let mut lo = 0;
                while lo < full {
                    jobs.push((t, len, f.clone(), is_lon, lo, (lo + chunk).min(full)));
                    lo += chunk;
                }
            } else {
                // quick tier: dense windows around every boundary of the 28/27-bit fields
                let sent = if f.width == 28 { 108_600_000u64 } else { 54_600_000u64 };
                let half = 1u64 << (f.width - 1);
                for centre in [0u64, half, sent, full - 1, half / 2, half + half / 2, 1 << 24, 1 << 26, 108_600, 54_600, full - 108_600, full - 54_600] {
                    let lo = centre.saturating_sub(20_000).min(full - 1);
                    let hi = (centre + 20_000).min(full);
                    jobs.push((t, len, f.clone(), is_lon, lo, hi));
                }
            }
        }
    }
    let seed = ctx.seed;
    let results: Vec<(u8, String, u64, u64, Option<Vec<u8>>)> = crate::util::par_map(jobs, move |(t, len, f, is_lon, lo, hi)| {
        let (e, n, bad) = sweep_coord(t, len, &f, is_lon, lo, hi, seed);
        (t, f.path.clone(), e, n, bad)
    });
    let sub = "coordinate-sweep";
    let mut total = 0u64;
    let mut nontriv = 0u64;
    for (t, path, e, n, bad) in results {
        total += e;
        nontriv += n;
        if let Some(bytes) = bad {
            if !ctx.sub_failed(sub) {
                // re-judge through the generic comparison; only that verdict is reported
                let input = Input::Payload { bytes };
                if ctx.sweep_case(sub, &STD, &input, check) {
                    ctx.notes.push(format!("typed filter flagged type {} {} but the generic comparison accepted it (tolerance edge); not a violation", t, path));
                }
            }
        }
    }
    {
        let st = ctx.subs.entry(sub.to_string()).or_default();
        st.cases += total;
        st.evals += total;
    }
    ctx.cases += total;
    ctx.evals += total;
    *ctx.per_config.entry("std".into()).or_default() += total;
    ctx.nontrivial_by_construction += nontriv;
    if thorough {
        ctx.mark_exhaustive(sub, "all 2^28 longitude and 2^27 latitude raws in types 1-3, 4, 9, 11, 18, 19, 21 and all 2^18 / 2^17 raws in types 17 and 27, neighbours re-randomised every 4096 values");
    } else {
        ctx.mark_exhaustive(sub, "all 2^18 / 2^17 raws in types 17 and 27; for the 28/27-bit fields 40000-value windows around 0, the sign bit, the sentinel, the extremes, four interior points and +-108600 / +-54600 (the codes of the other resolution) in each of types 1-3, 4, 9, 11, 18, 19, 21");
    }
    ctx.samples.push(json!({"sub": sub, "what": "typed sweep", "raws_decoded": total, "example": "type 1 longitude raw 0x8000000 (most negative) -> expected -223.696213 degrees"}));

    // (b2) landmarks of every coordinate field, on every build, through the generic path: every whole degree the
    // field can express (both signs, beyond +-180 / +-90 too), every power of two and its two neighbours (both
    // signs) - where an evaluation order that splits degrees from fractions, or goes through an integer
    // division, differs from raw / 600000
    {
        let mut mix = Mix::new(ctx.seed, 0x1a2d);
        for &t in COORD_TYPES.iter() {
            let len = layout::standard_lengths(t)[0];
            for f in c10_fields(t) {
                if f.path != "longitude" && f.path != "latitude" {
                    continue;
                }
                let unit: i64 = if f.width >= 27 { 600_000 } else { 600 };
                let half: i64 = 1 << (f.width - 1);
                let mut vals: Vec<i64> = Vec::new();
                let mut d = 0i64;
                while d * unit < half {
                    vals.push(d * unit);
                    vals.push(-d * unit);
                    d += 1;
                }
                for k in 0..(f.width - 1) {
                    for delta in [-1i64, 0, 1] {
                        vals.push((1i64 << k) + delta);
                        vals.push(-(1i64 << k) + delta);
                    }
                }
                vals.push(-half);
                vals.push(half - 1);
                for v in vals {
                    if v < -half || v >= half {
                        continue;
                    }
                    let mut b = mix.bytes(len);
                    set_bits(&mut b, 0, 6, t as u64);
                    set_bits(&mut b, f.start, f.width, (v as u64) & ((1u64 << f.width) - 1));
                    let input = Input::Payload { bytes: b };
                    for cfg in configs() {
                        ctx.sweep_case("coordinate-landmarks", cfg, &input, check);
                    }
                }
            }
        }
        ctx.mark_exhaustive("coordinate-landmarks", "every whole degree and every +-2^k, +-2^k+-1 of every coordinate field of every layout, on the three builds");
    }

    // (c) generated joint assignments through the generic path
    let n = ctx.tier.pick(120_000, 1_000_000);
    ctx.run_proptest("random-assignments", &STD, n, payload_inputs(COORD_TYPES.iter().copied().chain([5u8]).collect(), LenMode::Standard, Prop::C10, 8, 0.10), check);
    for cfg in configs().into_iter().skip(1) {
        ctx.run_proptest("random-assignments", cfg, n / 3, payload_inputs(COORD_TYPES.iter().copied().chain([5u8]).collect(), LenMode::Standard, Prop::C10, 8, 0.10), check);
    }
    // every field inverted as a whole and bit by bit against all-zero and all-one backgrounds
    for &t in crate::refmodel::layout::SUPPORTED.iter() {
        for len in crate::refmodel::layout::standard_lengths(t) {
            let mut inputs = Vec::new();
            crate::gen::payload::field_sweep(t, len, |b| inputs.push(b));
            for b in inputs {
                ctx.sweep_case("field-sweep", &crate::adapter::STD, &Input::Payload { bytes: b }, check);
            }
        }
    }
    ctx.mark_exhaustive("field-sweep", "every field of every specified shape x {inverted whole, each single bit inverted} x {all-zero, all-one background}");
    // every pair of fields at their special values (see gen::payload::pairwise_specials)
    {
        let mut mix = crate::util::Mix::new(ctx.seed, 0xa11);
        let reps = ctx.tier.pick(1, 6);
        for (t, len, part) in crate::gen::payload::pairwise_shapes() {
            
            for base in 0..4u8 {
                crate::gen::payload::pairwise_specials(t, len, part, if base == 0 { reps } else { 1 }, base, &mut mix, |b| {
                    ctx.sweep_case("pairwise-special-values", &crate::adapter::STD, &Input::Payload { bytes: b }, check);
                });
            }
        }
        ctx.mark_exhaustive("pairwise-special-values", "every pair of fields of every layout (longest specified shape, and the shortest for the variable ones) x each field's special values (0, 1, max, max-1, 'not available' codes, MMSI station classes, time-stamp codes 60..63; all values of fields up to 3 bits), against three backgrounds: the other bits random, all zero, and 'everything unavailable'");
    }
    // decoding after an arbitrary history, in an unfragmented sentence or in a closing line without a group
    {
        let n_after = ctx.tier.pick(24_000, 300_000);
        ctx.run_proptest("after-history", &crate::adapter::STD, n_after, crate::gen::payload::payload_inputs_after(COORD_TYPES.iter().copied().chain([5u8]).collect(), Prop::C10), check);
    }
}
