//! C19 — the sentence-level message type equals the payload's 6-bit type.

use crate::adapter::{Config, STD};
use crate::engine::{Ctx, Input, Line, Rec, Verdict};
use crate::gen::sentence::{inorder_group_history, message_chars, wellformed_spec};
use crate::gen::payload::LenMode;
use crate::outcome::Outcome;
use crate::props::hist::{gate, Gate};
use crate::refmodel::armor::{self, sixbit};
use crate::refmodel::build::{self, Spec};
use crate::refmodel::dbgtree;
use proptest::prelude::*;

pub const SIG_RAW_SHR2: &str = "sentence-type-is-raw-byte-shr2";

pub fn check(_sub: &str, cfg: &'static dyn Config, input: &Input, rec: &mut Rec) -> Verdict {
    let lines = match input {
        Input::History { lines } => lines,
        _ => crate::engine::infra_error("C19 expects a history"),
    };
    let mut p = cfg.new_parser();
    let mut known: Option<Verdict> = None;
    let mut notes = Vec::new();
    for (i, l) in lines.iter().enumerate() {
        let out = p.parse(&l.bytes, l.decode);
        rec.evals += 1;
        if let Outcome::Panic(m) = &out {
            return Verdict::fail(format!("line {}: a result or an error value", i), format!("panic: {}", m));
        }
        let f = match gate(&l.bytes) {
            Gate::Pass(f) => f,
            _ => continue,
        };
        let s = match out.sent() {
            Some(s) => s,
            None => continue,
        };
        // the statement speaks about "that sentence's payload": its own field
        let first = f.payload[0];
        let want = match sixbit(first) {
            Some(v) => v,
            None => {
                rec.class("first-character-outside-alphabet(not judged)");
                continue;
            }
        };
        if want != first >> 2 {
            rec.nontrivial = true;
        }
        if rec.want_note && notes.len() < 4 {
            notes.push(format!("{:?}: first payload character {:?} = 6-bit {} ; sentence.message_type = {}", crate::util::clip(&crate::util::esc(&l.bytes), 70), first as char, want, s.message_type));
        }
        let mut bad: Option<(String, String)> = None;
        if s.message_type != want {
            bad = Some((format!("line {}: sentence.message_type = {} (6-bit value of first payload character {:?})", i, want, first as char), format!("sentence.message_type = {}", s.message_type)));
        }
        // unfragmented sentences and first fragments: agreement with the decoded message's own type
        if bad.is_none() && f.fragment_number == 1 {
            if let (Outcome::Complete(_), Some(m)) = (&out, &s.message) {
                if let Ok(tree) = dbgtree::parse(m) {
                    if let Some(mt) = tree.child("0").and_then(|x| x.get("message_type")).and_then(|x| x.as_int()) {
                        rec.class("decoded-message-compared");
                        if mt != s.message_type as i128 {
                            bad = Some((format!("line {}: sentence.message_type equal to the decoded message's message_type = {}", i, mt), format!("sentence.message_type = {}", s.message_type)));
                        }
                    }
                }
            }
        }
        if let Some((e, o)) = bad {
            if s.message_type == first >> 2 {
                // known finding: the six bits are taken from the *armoured* byte
                if known.is_none() {
                    known = Some(Verdict::Known { sig: SIG_RAW_SHR2, expected: e, observed: format!("{} (= armoured byte {:#04x} >> 2)", o, first) });
                }
            } else {
                return Verdict::Fail { expected: e, observed: o };
            }
        }
    }
    if rec.want_note {
        rec.note = Some(notes.join(" | "));
    }
    known.unwrap_or(Verdict::Pass)
}

pub fn run(ctx: &mut Ctx) {
    ctx.rule = "all 64 armouring characters as first payload character x sentence shapes (unfragmented, first fragment of 2..9, second fragment after a first, with tag block, '$', decode on / off) with the rest of the payload a reference-encoded message of that type where one exists; sentence.message_type must equal the 6-bit value of the first payload character and, for unfragmented sentences and first fragments that were decoded, the decoded message's own message_type. Non-trivial = the 62 characters whose 6-bit value differs from byte >> 2; distinct by the lines.".into();
    ctx.replay_regressions(check);
    // exhaustive over first characters and shapes
    for v in 0..64u8 {
        let c = armor::armor_char(v);
        // a decodable payload of that type if the type is supported, else filler
        let mut bytes: Vec<u8> = (0..60u32).map(|i| (i * 37 + v as u32 * 11 + 5) as u8).collect();
        bytes[0] = (v << 2) | (bytes[0] & 3);
        bytes[4] &= 0xfc; // type 24: keep part A (bits 38..39 = 0)
        let len = crate::refmodel::layout::standard_lengths(v).last().copied().unwrap_or(21).min(60);
        let (chars, fill) = armor::armor_bytes(&bytes[..len]);
        assert_eq!(chars[0], c);
        for decode in [false, true] {
            let mut shapes: Vec<Vec<Line>> = Vec::new();
            shapes.push(vec![Line::new(build::line(1, 1, None, b"A", &chars, fill as u32), decode)]);
            shapes.push(vec![Line::new(build::line(1, 1, Some(4), b"", &chars[..1], 0), decode)]);
            let mut s = Spec::simple(1, 1, None, b"B", &chars, fill as u32);
            s.tag = Some(b"c:1*00".to_vec());
            s.delim = b'$';
            s.addr = *b"ABVDO";
            shapes.push(vec![Line::new(s.render(), decode)]);
            let cut = chars.len() / 2;
            shapes.push(vec![
                Line::new(build::line(2, 1, Some(1), b"A", &chars[..cut.max(1)], 0), decode),
                Line::new(build::line(2, 2, Some(1), b"A", &chars[cut.max(1).min(chars.len() - 1)..], fill as u32), decode),
            ]);
            shapes.push(vec![Line::new(build::line(9, 1, None, b"A", &chars[..1], 0), decode)]);
            // one-character payloads with every fill count, unfragmented and as a closing fragment
            for f in 0..6u32 {
                shapes.push(vec![Line::new(build::line(1, 1, None, b"A", &chars[..1], f), decode)]);
                shapes.push(vec![Line::new(build::line(2, 1, Some(5), b"A", b"15", 0), false), Line::new(build::line(2, 2, Some(5), b"A", &chars[..1], f), decode)]);
            }
            // a group that decodes (type 8: any length does) whose closing fragment is the single character c
            for f in 0..6u32 {
                shapes.push(vec![Line::new(build::line(2, 1, Some(7), b"A", b"85Mwp`1Kf3aCnsNvBWLi", 0), decode), Line::new(build::line(2, 2, Some(7), b"A", &chars[..1], f), decode)]);
                shapes.push(vec![Line::new(build::line(2, 1, None, b"A", b"85Mwp`1Kf3aCnsNvBWLi", 0), decode), Line::new(build::line(2, 2, None, b"A", &chars[..1], f), decode)]);
            }
            // long payloads: the type is the first character's, whatever the length (255, 256, 257, 384, 512, 513)
            for len in [255usize, 256, 257, 384, 511, 512, 513] {
                let long: Vec<u8> = (0..len).map(|i| if i == 0 { c } else { armor::ALPHABET[(i * 13 + v as usize) & 63] }).collect();
                shapes.push(vec![Line::new(build::line(1, 1, None, b"A", &long, 0), false)]);
                shapes.push(vec![Line::new(build::line(2, 1, None, b"A", &long, 0), false)]);
            }
            for lines in shapes {
                ctx.sweep_case("all-first-characters", &STD, &Input::History { lines }, check);
            }
        }
    }
    ctx.mark_exhaustive("all-first-characters", "64 armouring characters x {unfragmented long, one-character payload, tagged '$' VDO, two-fragment group, first of nine} x decode {off, on}");
    let n = ctx.tier.pick(120_000, 600_000);
    let strat = (wellformed_spec(), message_chars(LenMode::Standard), any::<bool>(), any::<bool>()).prop_map(|(mut s, (chars, fill), use_msg, decode)| {
        if use_msg {
            s.payload = chars;
            s.fill.v = fill as u32;
        }
        Input::History { lines: vec![Line::new(s.render(), decode)] }
    });
    ctx.run_proptest("generated-sentences", &STD, n, strat, check);
    // continuation fragments and completed groups: the type reported on each is that sentence's own
    ctx.run_proptest("fragment-groups", &STD, n / 2, inorder_group_history(), check);
}
