//! C16 — communication state is decoded per SOTDMA / ITDMA rules for each type.

use crate::adapter::{configs, Config, STD};
use crate::engine::{Ctx, Input, Rec, Tier, Verdict};
use crate::gen::payload::{payload_inputs, LenMode};
use crate::props::payload::{check_input, SIG_TYPE9};
use crate::refmodel::layout::{set_bits, Prop, RefMsg};
use crate::typed::{self, expected_radio, radio_agrees};
use crate::util::Mix;
use serde_json::json;

const RADIO_TYPES: [u8; 7] = [1, 2, 3, 4, 9, 11, 18];

fn nontrivial(r: &RefMsg, _bytes: &[u8]) -> bool {
    matches!(r, RefMsg::Msg(d) if d.fields.iter().any(|f| f.checks.iter().any(|(p, _)| *p == Prop::C16)))
}

pub fn check(_sub: &str, cfg: &'static dyn Config, input: &Input, rec: &mut Rec) -> Verdict {
    check_input(Prop::C16, cfg, input, nontrivial, rec)
}

struct ChunkResult {
    evals: u64,
    known_type9: u64,
    known_example: Option<Vec<u8>>,
    /// first payload the typed filter could not reconcile (re-judged generically)
    suspect: Option<Vec<u8>>,
}

/// all state values in [lo, hi) for type t (for 9 and 18 the value includes the selector bit)
/// the one-bit fields just before the state: (first bit, count) per type
fn flag_span(t: u8) -> (usize, usize) {
    match t {
        18 => (141, 7), // CS unit, display, DSC, band, message 22, assigned, RAIM
        9 => (142, 6),  // DTE, 3 spare, assigned, RAIM
        1..=3 => (143, 6), // manoeuvre (2), spare (3), RAIM
        _ => (148, 1),  // RAIM
    }
}

fn sweep(t: u8, lo: u32, hi: u32, seed: u64, type9_listed: bool, flags: Option<u64>) -> ChunkResult {
    let mut mix = Mix::new(seed, 0x1600 + ((t as u64) << 32) + lo as u64 + (flags.unwrap_or(0x55aa) << 40));
    let mut base = mix.bytes(21);
    let mut res = ChunkResult { evals: 0, known_type9: 0, known_example: None, suspect: None };
    let with_selector = t == 9 || t == 18;
    for v in lo..hi {
        if v & 0x3ff == 0 {
            base = mix.bytes(21);
        }
        set_bits(&mut base, 0, 6, t as u64);
        if let Some(fl) = flags {
            let (st, w) = flag_span(t);
            set_bits(&mut base, st, w, fl);
        }
        let (state, itdma) = if with_selector {
            set_bits(&mut base, 148, 20, v as u64);
            (v & 0x7ffff, (v >> 19) & 1 == 1)
        } else {
            set_bits(&mut base, 149, 19, v as u64);
            (v, t == 3)
        };
        res.evals += 1;
        let exp = expected_radio(itdma, state);
        match typed::decode_radio(&base) {
            Some(obs) if radio_agrees(exp, obs) => {}
            Some(obs) if t == 9 && type9_listed => {
                // the known finding: an always-SOTDMA state read from bits 148..166
                let early = ((crate::refmodel::layout::get_bits(&base, 148, 19)) & 0x7ffff) as u32;
                if radio_agrees(expected_radio(false, early), obs) {
                    res.known_type9 += 1;
                    if res.known_example.is_none() {
                        res.known_example = Some(base.clone());
                    }
                } else if res.suspect.is_none() {
                    res.suspect = Some(base.clone());
                }
            }
            _ => {
                if res.suspect.is_none() {
                    res.suspect = Some(base.clone());
                }
            }
        }
    }
    res
}

pub fn run(ctx: &mut Ctx) {
    ctx.rule = "exhaustive: all 2^19 communication-state values in each of types 1, 2, 3, 4, 11 and all 2^20 (selector + state) in types 9 and 18, the other 148 bits random (renewed every 1024 values); expected per M.1371-5: the state is the last 19 bits of the 168-bit message, SOTDMA for 1, 2, 4, 11, ITDMA for 3, chosen by the preceding selector bit for 9 and 18; sub-message by time-out value. Every (type, state) is non-trivial and distinct by construction. Plus generated payloads through the generic comparison.".into();
    ctx.assumptions = vec![
        "the UTC minute is a 7-bit field in the standard; an implementation reading its low six bits is accepted (all valid minutes agree)".into(),
        "the exhaustive loop uses typed access to the std build; anything it cannot reconcile is re-judged by the generic Debug-tree comparison, which alone produces verdicts".into(),
    ];
    ctx.replay_regressions(check);
    let type9_listed = ctx.findings.iter().any(|f| f.sig == SIG_TYPE9);
    let mut jobs = Vec::new();
    for &t in RADIO_TYPES.iter() {
        let total: u32 = if t == 9 || t == 18 { 1 << 20 } else { 1 << 19 };
        let chunk = 1u32 << 16;
        // the state must not depend on the flags in front of it: once with those bits random, then with
        // each single flag set / cleared against the others (quick), or every combination (thorough)
        let (_, w) = flag_span(t);
        let mut flag_sets: Vec<Option<u64>> = vec![None];
        if ctx.tier == Tier::Thorough {
            flag_sets.extend((0..(1u64 << w)).map(Some));
        } else {
            flag_sets.push(Some(0));
            flag_sets.push(Some((1 << w) - 1));
            if t == 18 {
                flag_sets.push(Some(1 << 6)); // CS unit alone
                flag_sets.push(Some(((1 << w) - 1) ^ (1 << 6)));
            }
        }
        for fl in flag_sets {
            let mut lo = 0;
            while lo < total {
                jobs.push((t, lo, lo + chunk, fl));
                lo += chunk;
            }
        }
    }
    let seed = ctx.seed;
    let results = crate::util::par_map(jobs, move |(t, lo, hi, fl)| (t, sweep(t, lo, hi, seed, type9_listed, fl)));
    let sub = "all-states";
    let mut total = 0u64;
    for (t, r) in results {
        total += r.evals;
        if r.known_type9 > 0 {
            // account for the fast-path matches, and push one example through the generic path so
            // that the signature logic that produces verdicts is exercised on this run as well
            if let Some(ex) = r.known_example {
                let before = ctx.known.get(SIG_TYPE9).map(|x| x.0).unwrap_or(0);
                ctx.sweep_case(sub, &STD, &Input::Payload { bytes: ex }, check);
                let after = ctx.known.get(SIG_TYPE9).map(|x| x.0).unwrap_or(0);
                if after == before + 1 {
                    ctx.known.get_mut(SIG_TYPE9).unwrap().0 += r.known_type9 - 1;
                }
            }
        }
        if let Some(bytes) = r.suspect {
            if !ctx.sub_failed(sub) {
                if ctx.sweep_case(sub, &STD, &Input::Payload { bytes }, check) {
                    ctx.notes.push(format!("typed filter flagged a type {} state that the generic comparison accepted", t));
                }
            }
        }
    }
    {
        let st = ctx.subs.entry(sub.to_string()).or_default();
        st.cases += total;
        st.evals += total;
    }
    ctx.cases += total;
    ctx.evals += total;
    *ctx.per_config.entry("std".into()).or_default() += total;
    ctx.nontrivial_by_construction += total;
    ctx.mark_exhaustive(sub, "2^19 states x types {1,2,3,4,11} + 2^20 (selector, state) x types {9,18}, each once with the other 148 bits random and again with the one-bit flags in front of the state forced (quick: all clear, all set, and for type 18 the CS-unit flag alone / alone clear; thorough: every combination of those flags)");
    ctx.samples.push(json!({"sub": sub, "what": "typed exhaustive sweep", "states_decoded": total}));

    let n = ctx.tier.pick(120_000, 600_000);
    ctx.run_proptest("random-assignments", &STD, n, payload_inputs(RADIO_TYPES.to_vec(), LenMode::Standard, Prop::C16, 8, 0.1), check);
    for cfg in configs().into_iter().skip(1) {
        ctx.run_proptest("random-assignments", cfg, n / 2, payload_inputs(RADIO_TYPES.to_vec(), LenMode::Standard, Prop::C16, 8, 0.1), check);
    }
    let _ = Tier::Quick;
    // every field inverted as a whole and bit by bit against all-zero and all-one backgrounds
    for &t in crate::refmodel::layout::SUPPORTED.iter() {
        for len in crate::refmodel::layout::standard_lengths(t) {
            let mut inputs = Vec::new();
            crate::gen::payload::field_sweep(t, len, |b| inputs.push(b));
            for b in inputs {
                ctx.sweep_case("field-sweep", &crate::adapter::STD, &Input::Payload { bytes: b }, check);
            }
        }
    }
    ctx.mark_exhaustive("field-sweep", "every field of every specified shape x {inverted whole, each single bit inverted} x {all-zero, all-one background}");
    // every pair of fields at their special values (see gen::payload::pairwise_specials)
    {
        let mut mix = crate::util::Mix::new(ctx.seed, 0xa11);
        let reps = ctx.tier.pick(1, 6);
        for (t, len, part) in crate::gen::payload::pairwise_shapes() {
            if !RADIO_TYPES.contains(&t) { continue; }
            for base in 0..4u8 {
                crate::gen::payload::pairwise_specials(t, len, part, if base == 0 { reps } else { 1 }, base, &mut mix, |b| {
                    ctx.sweep_case("pairwise-special-values", &crate::adapter::STD, &Input::Payload { bytes: b }, check);
                });
            }
        }
        ctx.mark_exhaustive("pairwise-special-values", "every pair of fields of every layout (longest specified shape, and the shortest for the variable ones) x each field's special values (0, 1, max, max-1, 'not available' codes, MMSI station classes, time-stamp codes 60..63; all values of fields up to 3 bits), against three backgrounds: the other bits random, all zero, and 'everything unavailable'");
    }
    // decoding after an arbitrary history, in an unfragmented sentence or in a closing line without a group
    {
        let n_after = ctx.tier.pick(24_000, 300_000);
        ctx.run_proptest("after-history", &crate::adapter::STD, n_after, crate::gen::payload::payload_inputs_after(RADIO_TYPES.to_vec(), Prop::C16), check);
    }
}
