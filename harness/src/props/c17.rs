//! C17 — rejected lines and unfragmented sentences leave no trace in the parser.

use crate::adapter::{configs, Config, STD};
use crate::engine::{Ctx, Input, Line, Rec, Tier, Verdict};
use crate::gen::sentence::{adversarial_events, malformed_line, payload_field, render_ev, seq_id, token_payload, Ev};
use crate::outcome::Outcome;
use crate::props::hist::{gate, Gate};
use crate::refmodel::build::{self, Cks, Spec};
use crate::refmodel::nmea::{recognise, Shape};
use crate::util::esc;
use proptest::prelude::*;

fn run_all(cfg: &'static dyn Config, lines: &[&Line]) -> Vec<Outcome> {
    let mut p = cfg.new_parser();
    lines.iter().map(|l| p.parse(&l.bytes, l.decode)).collect()
}

/// the probe suffix: fragments that read back sequence id, fragment number and accumulated data
fn probes(lines: &[Line], extra: &Line) -> Vec<Line> {
    let mut ids: Vec<Option<u32>> = vec![None];
    for l in lines.iter().chain(std::iter::once(extra)) {
        if let Shape::WellFormed(f) = recognise(&l.bytes) {
            let id = f.message_id.map(|x| x as u32);
            if !ids.contains(&id) {
                ids.push(id);
            }
        }
    }
    ids.truncate(4);
    // two-digit fragment numbers in play (long groups): the continuation of each is a probe as well
    let mut longs: Vec<(u32, u32)> = Vec::new();
    for l in lines.iter() {
        if let Shape::WellFormed(f) = recognise(&l.bytes) {
            let (n, k) = (f.num_fragments as u32, f.fragment_number as u32);
            if k >= 9 && k < n && n <= 255 && !longs.contains(&(n, k + 1)) && longs.len() < 6 {
                longs.push((n, k + 1));
            }
        }
    }
    let mut out = Vec::new();
    // a decodable unfragmented sentence with decoding on: residue of an earlier payload (a scratch buffer
    // that was not cleared, say) shows in the message it decodes to
    out.push(Line::new(b"!AIVDM,1,1,,B,177KQJ5000G?tO`K>RA1wUbN0TKH,0*5C".to_vec(), true));
    out.push(Line::new(b"!AIVDM,1,1,,A,H42O55i18tMET00000000000000,2*6D".to_vec(), true));
    for id in ids {
        for k in 2..=9u32 {
            out.push(Line::new(build::line(k, k, id, b"A", b"P", 0), false)); // final
            out.push(Line::new(build::line(k + 1, k, id, b"A", b"Q", 0), false)); // non-final
        }
        for (n, k) in longs.iter() {
            out.push(Line::new(build::line(*n, *k, id, b"A", b"R", 0), false));
        }
    }
    out
}

fn is_trace_free_kind(cfg: &'static dyn Config, extra: &Line, out: &Outcome) -> Result<&'static str, &'static str> {
    match out {
        Outcome::Err(_) => Ok("rejected"),
        Outcome::Panic(_) => Ok("panic"),
        _ => {
            let _ = cfg;
            match gate(&extra.bytes) {
                Gate::Pass(f) if f.num_fragments == 1 && f.fragment_number == 1 => Ok("unfragmented"),
                _ => Err("the extra line was accepted as a fragment: not a rejected or unfragmented line"),
            }
        }
    }
}

fn check_insert(cfg: &'static dyn Config, lines: &[Line], pos: usize, extra: &Line, rec: &mut Rec) -> Verdict {
    let pos = pos.min(lines.len());
    // without / with the extra line
    let without: Vec<&Line> = lines.iter().collect();
    let mut with: Vec<&Line> = lines[..pos].iter().collect();
    with.push(extra);
    with.extend(lines[pos..].iter());
    let o_without = run_all(cfg, &without);
    let o_with = run_all(cfg, &with);
    rec.evals += (without.len() + with.len()) as u64;
    let extra_out = &o_with[pos];
    if let Outcome::Panic(m) = extra_out {
        return Verdict::fail(format!("the inserted line {:?} returns a result or an error value", crate::util::clip(&esc(&extra.bytes), 100)), format!("panic: {}", m));
    }
    let kind = match is_trace_free_kind(cfg, extra, extra_out) {
        Ok(k) => k,
        Err(why) => {
            // accepted as a fragment. If the reassembly rules say this very line must be rejected
            // (validly numbered, k >= 2, but not the direct continuation of the open group), it is a line
            // "rejected because of its fragment sequencing" in every conforming parser - and here it has
            // obviously left a trace. Judged with the reference model on the prefix.
            let mut with_extra: Vec<Line> = lines[..pos].to_vec();
            with_extra.push(Line::new(extra.bytes.clone(), false));
            let (_steps, fail) = crate::props::hist::judge_history(cfg, &with_extra, crate::props::hist::SEQ);
            if let Some(f) = fail {
                if f.line_no == pos {
                    return Verdict::fail(format!("the inserted line is rejected for its sequencing and leaves no trace: {}", f.expected), f.observed);
                }
            }
            return Verdict::Excluded(why);
        }
    };
    if kind == "rejected" && cfg.name() == "none" {
        // C17 names form, checksum and sequencing. A fragment refused because the 384-byte buffer is full is
        // none of these (C18 speaks about it): if the same line is accepted by the std build after the same
        // prefix, its rejection here is a capacity rejection and the case is not judged.
        let mut pre: Vec<&Line> = lines[..pos].iter().collect();
        pre.push(extra);
        let o = run_all(&STD, &pre);
        if o.last().map(|x| x.is_ok()).unwrap_or(false) {
            return Verdict::Excluded("refused for capacity by the no-allocator build (C18's business)");
        }
    }
    if kind == "rejected" && extra.decode {
        // an error on a fragment with decoding requested may come from the *payload* of a group it
        // completed - that is not one of the kinds of rejection the statement names. The line
        // qualifies only if it is rejected with decoding off as well.
        if let Gate::Pass(f) = gate(&extra.bytes) {
            if !(f.num_fragments == 1 && f.fragment_number == 1) {
                let plain = Line::new(extra.bytes.clone(), false);
                let mut pre: Vec<&Line> = lines[..pos].iter().collect();
                pre.push(&plain);
                let o = run_all(cfg, &pre);
                if o.last().map(|x| x.is_ok()).unwrap_or(false) {
                    return Verdict::Excluded("the extra line is accepted by the sequencing rules; its error comes from decoding the completed group");
                }
            }
        }
    }
    rec.class(if kind == "rejected" { "extra-line-rejected" } else { "extra-line-unfragmented" });
    // was a group open when the extra line arrived? (judged on the implementation's own results:
    // the last accepted line before `pos` that was Incomplete)
    let open_before = o_without[..pos].iter().rev().find(|o| o.is_ok()).map(|o| matches!(o, Outcome::Incomplete(_))).unwrap_or(false);
    rec.nontrivial = open_before;
    if open_before {
        rec.class("lands-in-open-group");
    }
    if rec.want_note {
        rec.note = Some(format!(
            "history of {} line(s); extra line {:?} inserted before index {} -> {} ({}); open group at that point: {}",
            lines.len(),
            crate::util::clip(&esc(&extra.bytes), 80),
            pos,
            crate::util::clip(&extra_out.brief(), 100),
            kind,
            open_before
        ));
    }
    // (1) every other line's result is unchanged
    for i in 0..lines.len() {
        let j = if i < pos { i } else { i + 1 };
        if o_without[i] != o_with[j] {
            return Verdict::fail(
                format!("line {} ({:?}) gives the same result with and without the extra line: {}", i, crate::util::clip(&esc(&lines[i].bytes), 80), o_without[i].brief()),
                format!("with {:?} inserted before line {}: {}", crate::util::clip(&esc(&extra.bytes), 80), pos, o_with[j].brief()),
            );
        }
    }
    // (2) probe suffix right after the insertion point: a hidden state change shows at once
    for pr in probes(lines, extra) {
        let mut a: Vec<&Line> = lines[..pos].iter().collect();
        a.push(&pr);
        let mut b: Vec<&Line> = lines[..pos].iter().collect();
        b.push(extra);
        b.push(&pr);
        let oa = run_all(cfg, &a);
        let ob = run_all(cfg, &b);
        rec.evals += (a.len() + b.len()) as u64;
        if oa.last() != ob.last() {
            return Verdict::fail(
                format!("probe {:?} after the first {} line(s) gives the same result with and without the extra line: {}", esc(&pr.bytes), pos, oa.last().unwrap().brief()),
                format!("after {:?}: {}", crate::util::clip(&esc(&extra.bytes), 80), ob.last().unwrap().brief()),
            );
        }
    }
    Verdict::Pass
}

fn check_interleave(cfg: &'static dyn Config, a: &[Line], b: &[Line], order: &[bool], rec: &mut Rec) -> Verdict {
    let alone_a = run_all(cfg, &a.iter().collect::<Vec<_>>());
    let alone_b = run_all(cfg, &b.iter().collect::<Vec<_>>());
    let mut pa = cfg.new_parser();
    let mut pb = cfg.new_parser();
    let (mut ia, mut ib) = (0, 0);
    let mut oi = 0;
    rec.nontrivial = !a.is_empty() && !b.is_empty();
    rec.class("two-parsers-interleaved");
    while ia < a.len() || ib < b.len() {
        let take_a = if ia >= a.len() {
            false
        } else if ib >= b.len() {
            true
        } else {
            let t = order.get(oi).copied().unwrap_or(oi % 2 == 0);
            oi += 1;
            t
        };
        rec.evals += 1;
        if take_a {
            let o = pa.parse(&a[ia].bytes, a[ia].decode);
            if o != alone_a[ia] {
                return Verdict::fail(format!("parser A, line {}: the result it gives alone: {}", ia, alone_a[ia].brief()), format!("interleaved with parser B: {}", o.brief()));
            }
            ia += 1;
        } else {
            let o = pb.parse(&b[ib].bytes, b[ib].decode);
            if o != alone_b[ib] {
                return Verdict::fail(format!("parser B, line {}: the result it gives alone: {}", ib, alone_b[ib].brief()), format!("interleaved with parser A: {}", o.brief()));
            }
            ib += 1;
        }
    }
    if rec.want_note {
        rec.note = Some(format!("two parsers, {} + {} lines interleaved; each produced what it produces alone", a.len(), b.len()));
    }
    Verdict::Pass
}

pub fn check(_sub: &str, cfg: &'static dyn Config, input: &Input, rec: &mut Rec) -> Verdict {
    match input {
        Input::Insert { lines, pos, extra } => check_insert(cfg, lines, *pos, extra, rec),
        Input::Interleave { a, b, order } => check_interleave(cfg, a, b, order, rec),
        _ => crate::engine::infra_error("C17 expects an insert or interleave input"),
    }
}

/// lines of the kinds the statement names
fn extra_line() -> impl Strategy<Value = Line> {
    prop_oneof![
        // malformed
        3 => malformed_line().prop_map(|b| Line::new(b, false)),
        // bad checksum, any numbering
        3 => (1u32..5, 1u32..5, seq_id(), token_payload(), any::<u8>()).prop_map(|(n, k, id, p, d)| {
            let mut s = Spec::simple(n, k.min(n), id.map(|x| x as u32), b"A", &p, 0);
            s.cks = Cks::Delta(d | 1);
            Line::new(s.render(), false)
        }),
        // out-of-sequence or orphan fragments (k >= 2), also not validly numbered ones
        5 => (2u32..=9, 0u32..=10, seq_id(), token_payload(), any::<bool>()).prop_map(|(n, k, id, p, decode)| {
            let k = if k == 1 { 2 } else { k };
            Line::new(build::line(n, k, id.map(|x| x as u32), b"B", &p, 0), decode)
        }),
        1 => (seq_id(), token_payload()).prop_map(|(id, p)| Line::new(build::line(1, 0, id.map(|x| x as u32), b"B", &p, 0), false)),
        // unfragmented, decodable or not, decode either way
        5 => (payload_field(80), any::<bool>(), seq_id()).prop_map(|((p, f), decode, id)| Line::new(build::line(1, 1, id.map(|x| x as u32), b"A", &p, f as u32), decode)),
    ]
}

fn insert_inputs(max_hist: usize) -> impl Strategy<Value = Input> {
    (adversarial_events(max_hist), any::<u16>(), extra_line()).prop_map(|(evs, psel, extra)| {
        let lines: Vec<Line> = evs.iter().map(render_ev).collect();
        let pos = (psel as usize * (lines.len() + 1)) >> 16;
        Input::Insert { lines, pos, extra }
    })
}

pub fn run(ctx: &mut Ctx) {
    ctx.rule = "metamorphic on results only: a generated history (interleaved groups with loss, duplication, reordering, noise; up to 10 lines), a position, and an extra line of one of the kinds the statement names (malformed, bad checksum, out-of-sequence / orphan / id-mismatched / not-validly-numbered fragment, unfragmented sentence with decodable or undecodable payload, decode on or off); the history is run with and without the extra line and every other result must be identical; in addition up to 64 probe fragments (final and non-final, k = 2..9, every id in play) are appended right after the insertion point on re-runs of the prefix, so that a hidden change of id, fragment number or accumulated data shows immediately. If the extra line turns out to be accepted as a fragment it is not a 'rejected line': skipped and counted. Independence: two parsers fed interleaved streams give what each gives alone. Non-trivial = the extra line lands while a group is open; distinct by (history, position, line).".into();
    ctx.assumptions = vec!["the derived Debug of AisParser is printed in replays for diagnosis only, never compared, so an internal refactoring cannot raise an alarm".into()];
    ctx.replay_regressions(check);
    let n = ctx.tier.pick(32_000, 200_000);
    ctx.run_proptest("insert-line", &STD, n, insert_inputs(10), check);
    let inter = (adversarial_events(10), adversarial_events(10), proptest::collection::vec(any::<bool>(), 20)).prop_map(|(a, b, order)| Input::Interleave {
        a: a.iter().map(render_ev).collect(),
        b: b.iter().map(render_ev).collect(),
        order,
    });
    ctx.run_proptest("two-parsers", &STD, n / 2, inter, check);
    // the same with a long group (two-digit fragment numbers, probes aimed at the position reached) as the history
    let long = || {
        (crate::gen::sentence::long_group_events(), any::<u16>(), extra_line()).prop_map(|(evs, psel, extra)| {
            let lines: Vec<Line> = evs.iter().map(render_ev).collect();
            let pos = (psel as usize * (lines.len() + 1)) >> 16;
            Input::Insert { lines, pos, extra }
        })
    };
    for cfg in configs() {
        ctx.run_proptest("insert-line-long-group", cfg, n / 8, long(), check);
    }
    let others = if ctx.tier == Tier::Thorough { n / 4 } else { n / 6 };
    for cfg in configs().into_iter().skip(1) {
        ctx.run_proptest("insert-line", cfg, others, insert_inputs(10), check);
    }
    // no-allocator build: a fragment rejected because the 384-byte buffer is full is a rejected line too
    let cap = (prop::sample::select(vec![150usize, 190, 200, 300, 383]), prop::sample::select(vec![1usize, 100, 190, 200, 383, 384]), any::<u8>(), prop_oneof![Just(None), (0u32..3).prop_map(Some)], any::<bool>()).prop_map(
        |(a, b, salt, id, final_too)| {
            let big = |n: usize, s: usize| -> Vec<u8> { (0..n).map(|j| crate::refmodel::armor::ALPHABET[(j * 3 + s) & 63]).collect() };
            let mut lines = vec![Line::new(build::line(3, 1, id, b"A", &big(a, salt as usize), 0), false)];
            lines.push(Line::new(build::line(3, 2, id, b"A", b"22", 0), false));
            lines.push(Line::new(build::line(3, 3, id, b"A", b"33", 0), false));
            let extra = Line::new(build::line(3, if final_too { 3 } else { 2 }, id, b"A", &big(b, salt as usize + 7), 0), false);
            Input::Insert { lines, pos: 1, extra }
        },
    );
    ctx.run_proptest("capacity-insertions", &crate::adapter::NONE, n / 4, cap, check);
    let _ = Ev::Raw(vec![]);
}
