//! C11 — 'not available' codes, and only those, decode to an absent value.

use crate::adapter::{configs, Config, STD};
use crate::engine::{Ctx, Input, Rec, Verdict};
use crate::gen::payload::{payload_inputs, LenMode};
use crate::props::payload::check_input;
use crate::refmodel::layout::{self, get_bits, refdecode, set_bits, Hint, Prop, RefMsg, SUPPORTED};
use crate::util::Mix;

/// non-trivial: some field with a 'not available' code carries a raw within +-2 of that code
fn nontrivial(r: &RefMsg, bytes: &[u8]) -> bool {
    match r {
        RefMsg::Msg(d) => d.fields.iter().any(|f| {
            if !f.checks.iter().any(|(p, _)| *p == Prop::C11) || f.width == 0 || f.width > 32 {
                return false;
            }
            match &f.hint {
                Hint::Sentinels(s) => {
                    let raw = get_bits(bytes, f.start, f.width) as i64;
                    (raw - s[0] as i64).abs() <= 2
                }
                _ => false,
            }
        }),
        _ => false,
    }
}

pub fn check(_sub: &str, cfg: &'static dyn Config, input: &Input, rec: &mut Rec) -> Verdict {
    check_input(Prop::C11, cfg, input, nontrivial, rec)
}

pub fn run(ctx: &mut Ctx) {
    ctx.rule = "for every optional numeric field of every layout: the 'not available' code at the field's own resolution, code +-1, +-2, 0, 1, the extremes, both sides of the sign bit, one-hot and uniform raws, each with random neighbours; the field must be absent exactly for the code and present (integer fields: with the raw value) otherwise, never an error. Non-trivial = a probed field is within +-2 of its code; distinct by payload bytes.".into();
    ctx.assumptions = vec!["scaled values of present fields are compared by C10".into()];
    ctx.replay_regressions(check);

    let mut mix = Mix::new(ctx.seed, 11);
    let reps = ctx.tier.pick(6, 200);
    for &t in SUPPORTED.iter() {
        for len in layout::standard_lengths(t) {
            let mut b0 = vec![0u8; len];
            set_bits(&mut b0, 0, 6, t as u64);
            if t == 15 {
                // make the optional second request / second station present
                for i in 40..len * 8 {
                    set_bits(&mut b0, i, 1, (i % 3 == 0) as u64);
                }
            }
            let fields = match refdecode(&b0) {
                RefMsg::Msg(d) => d.fields,
                _ => continue,
            };
            for f in fields.iter().filter(|f| f.checks.iter().any(|(p, _)| *p == Prop::C11) && f.width > 0) {
                let sentinels = match &f.hint {
                    Hint::Sentinels(s) => s.clone(),
                    _ => continue,
                };
                let m = (1u64 << f.width) - 1;
                let mut raws: Vec<u64> = vec![0, 1, 2, m, m - 1, m >> 1, (m >> 1) + 1];
                for s in &sentinels {
                    for d in -2i64..=2 {
                        raws.push(((*s as i64 + d) as u64) & m);
                    }
                }
                for k in 0..f.width {
                    raws.push(1u64 << k);
                }
                // the sentinel expressed at the *other* resolution, where there is one
                raws.extend([108_600_000u64 & m, 54_600_000 & m, 108_600 & m, 54_600 & m, 181_000 & m, 91_000 & m]);
                raws.sort();
                raws.dedup();
                for raw in raws {
                    for rep in 0..reps {
                        let mut b = if rep == 0 { b0.clone() } else { mix.bytes(len) };
                        set_bits(&mut b, 0, 6, t as u64);
                        if t == 24 {
                            set_bits(&mut b, 38, 2, get_bits(&b0, 38, 2));
                        }
                        set_bits(&mut b, f.start, f.width, raw);
                        if ctx.sub_failed("sentinel-neighbourhood") {
                            return;
                        }
                        let input = Input::Payload { bytes: b };
                        for cfg in configs() {
                            ctx.sweep_case("sentinel-neighbourhood", cfg, &input, check);
                        }
                    }
                }
            }
        }
    }
    ctx.mark_exhaustive("sentinel-neighbourhood", "every optional numeric field of every specified shape x {code, code+-1, code+-2, 0, 1, 2, max, max-1, both sides of the sign bit, every one-hot raw, the code at the other resolution} x random neighbours");

    let n = ctx.tier.pick(200_000, 1_500_000);
    ctx.run_proptest("random-assignments", &STD, n, payload_inputs(SUPPORTED.to_vec(), LenMode::Standard, Prop::C11, 8, 0.10), check);
    // the same generated payloads, a tenth of them through the sentence path (fragments included), on the
    // alloc and no-allocator builds
    for cfg in crate::adapter::configs().into_iter().skip(1) {
        let n_other = ctx.tier.pick(20_000, 200_000);
        ctx.run_proptest("random-assignments", cfg, n_other, crate::gen::payload::payload_inputs(SUPPORTED.to_vec(), crate::gen::payload::LenMode::Standard, Prop::C11, 8, 0.15), check);
    }
    // every field inverted as a whole and bit by bit against all-zero and all-one backgrounds
    for &t in crate::refmodel::layout::SUPPORTED.iter() {
        for len in crate::refmodel::layout::standard_lengths(t) {
            let mut inputs = Vec::new();
            crate::gen::payload::field_sweep(t, len, |b| inputs.push(b));
            for b in inputs {
                ctx.sweep_case("field-sweep", &crate::adapter::STD, &Input::Payload { bytes: b }, check);
            }
        }
    }
    ctx.mark_exhaustive("field-sweep", "every field of every specified shape x {inverted whole, each single bit inverted} x {all-zero, all-one background}");
    // every pair of fields at their special values (see gen::payload::pairwise_specials)
    {
        let mut mix = crate::util::Mix::new(ctx.seed, 0xa11);
        let reps = ctx.tier.pick(1, 6);
        for (t, len, part) in crate::gen::payload::pairwise_shapes() {
            
            for base in 0..4u8 {
                crate::gen::payload::pairwise_specials(t, len, part, if base == 0 { reps } else { 1 }, base, &mut mix, |b| {
                    ctx.sweep_case("pairwise-special-values", &crate::adapter::STD, &Input::Payload { bytes: b }, check);
                });
            }
        }
        ctx.mark_exhaustive("pairwise-special-values", "every pair of fields of every layout (longest specified shape, and the shortest for the variable ones) x each field's special values (0, 1, max, max-1, 'not available' codes, MMSI station classes, time-stamp codes 60..63; all values of fields up to 3 bits), against three backgrounds: the other bits random, all zero, and 'everything unavailable'");
    }
    // decoding after an arbitrary history, in an unfragmented sentence or in a closing line without a group
    {
        let n_after = ctx.tier.pick(24_000, 300_000);
        ctx.run_proptest("after-history", &crate::adapter::STD, n_after, crate::gen::payload::payload_inputs_after(SUPPORTED.to_vec(), Prop::C11), check);
    }
}
