//! C02 — checksum gate: a line with a wrong checksum is never accepted.

use crate::adapter::{Config, STD};
use crate::engine::{Ctx, Input, Line, Rec, Verdict};
use crate::gen::sentence::{adversarial_events, render_ev, spec_with_numbering, wellformed_spec, Ev};
use crate::props::hist::{gate, judge_history, render_steps, Gate, CKS};
use crate::refmodel::build::{Cks, Num, Spec};
use proptest::prelude::*;

pub fn check(_sub: &str, cfg: &'static dyn Config, input: &Input, rec: &mut Rec) -> Verdict {
    let lines = match input {
        Input::History { lines } => lines,
        _ => crate::engine::infra_error("C02 expects a history"),
    };
    let (steps, fail) = judge_history(cfg, lines, CKS);
    rec.evals += lines.len() as u64;
    for l in lines {
        match gate(&l.bytes) {
            Gate::BadChecksum(_) => {
                rec.nontrivial = true;
                rec.class("wellformed-checksum-mismatch");
            }
            Gate::Pass(_) => {
                rec.nontrivial = true;
                rec.class("wellformed-checksum-match");
            }
            Gate::StarInField(_) => rec.class("star-in-field(not judged)"),
            Gate::Malformed(_) => rec.class("malformed"),
        }
    }
    if rec.want_note {
        rec.note = Some(render_steps(lines, &steps));
    }
    match fail {
        Some(f) => Verdict::fail(format!("line {}: {}", f.line_no, f.expected), f.observed),
        None => Verdict::Pass,
    }
}

/// one sentence body with all 256 transmitted values, in a generated order of spellings
fn all_values(s: Spec, spell: Vec<(u8, bool)>, decode: bool) -> Vec<Line> {
    (0..=255u8)
        .map(|v| {
            let mut t = s.clone();
            t.cks = Cks::Value(v);
            let (d, lower) = spell[v as usize % spell.len()];
            t.cks_digits = d;
            t.cks_lower = lower;
            Line::new(t.render(), decode)
        })
        .collect()
}

pub fn run(ctx: &mut Ctx) {
    ctx.rule = "well-formed sentences from the builder with every field randomised; (i) each body with all 256 transmitted values, spelled with 1..8 hex digits in either case and followed by nothing, CR LF or junk; (ii) random transmitted values on lines embedded in histories (fresh parser, open group, just-delivered group; unfragmented and fragment numbering; decode on and off); (iii) every single-byte corruption of valid sentences: every position x the 8 single-bit flips and random replacement bytes. Oracle: XOR over the bytes strictly between the delimiter and the first '*': mismatch on a well-formed line => exactly Err(Checksum{expected: transmitted, found: computed}); match => never a checksum error; a line the recogniser rejects is never accepted. Non-trivial = the line is well-formed so the checksum alone decides; distinct by the lines.".into();
    ctx.assumptions = vec![
        "fields contain no '*': for a '*' inside a field the statement's 'first following *' and the grammar's terminator differ; such lines (only reachable through corruption) are counted and not judged".into(),
        "multi-byte corruptions that cancel in XOR are accepted by design of the checksum and are not asserted on".into(),
    ];
    ctx.replay_regressions(check);
    // (i)
    let n = ctx.tier.pick(4_000, 40_000);
    let strat = (wellformed_spec(), proptest::collection::vec((1u8..=8, any::<bool>()), 1..6), any::<bool>()).prop_map(|(s, spell, decode)| Input::History { lines: all_values(s, spell, decode) });
    ctx.run_proptest("all-256-values", &STD, n, strat, check);
    // (ii) in histories: a prefix that leaves the parser in some state, then lines of any
    // numbering with a right or wrong checksum
    let numbering = (1u32..=4, 1u32..=4, prop_oneof![Just(None), (0u32..3).prop_map(Some)]);
    let probe = (numbering, any::<u8>(), prop::bool::weighted(0.3), any::<bool>()).prop_flat_map(|((n, k, id), delta, correct, decode)| {
        spec_with_numbering(Num::plain(n), Num::plain(k.min(n.max(1))), id.map(Num::plain)).prop_map(move |mut s| {
            s.cks = if correct || delta == 0 { Cks::Correct } else { Cks::Delta(delta) };
            Line::new(s.render(), decode)
        })
    });
    let n2 = ctx.tier.pick(80_000, 600_000);
    let strat = (adversarial_events(8), proptest::collection::vec(probe, 1..5)).prop_map(|(pre, probes)| {
        let mut lines: Vec<Line> = pre.iter().map(render_ev).collect();
        lines.extend(probes);
        Input::History { lines }
    });
    ctx.run_proptest("in-histories", &STD, n2, strat, check);
    // (iii) single-byte corruption at every position
    let n3 = ctx.tier.pick(800, 6_000);
    let strat = (wellformed_spec(), proptest::collection::vec(any::<u8>(), 3), any::<bool>()).prop_map(|(mut s, repl, decode)| {
        s.payload.truncate(40);
        let base = s.render();
        let mut lines = Vec::new();
        for i in 0..base.len() {
            for bit in 0..8 {
                let mut b = base.clone();
                b[i] ^= 1 << bit;
                lines.push(Line::new(b, decode));
            }
            for r in &repl {
                if *r != base[i] {
                    let mut b = base.clone();
                    b[i] = *r;
                    lines.push(Line::new(b, decode));
                }
            }
        }
        lines.push(Line::new(base, decode));
        Input::History { lines }
    });
    ctx.run_proptest("single-byte-corruption", &STD, n3, strat, check);
    let _ = Ev::Raw(vec![]);
}
