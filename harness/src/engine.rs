//! The generation engine shared by all checks: concrete inputs and their JSON form, verdicts,
//! counters and evidence, violations and replay files, known findings, the proptest driver,
//! and the watchdog. See DESIGN.md section 2.

use crate::adapter::Config;
use crate::util::{esc, hash_of, hex, unhex};
use proptest::strategy::Strategy;
use proptest::test_runner::{Config as PtConfig, RngSeed, TestCaseError, TestError, TestRunner};
use serde_json::{json, Value};
use std::cell::{Cell, RefCell};
use std::collections::{BTreeMap, HashSet};
use std::path::PathBuf;
use std::sync::atomic::{AtomicPtr, AtomicU64, Ordering};
use std::time::Instant;

pub const VERIF_DIR: &str = "/verif";

#[derive(Clone, Copy, Debug, PartialEq, Eq)]
pub enum Tier {
    Quick,
    Thorough,
}
impl Tier {
    pub fn name(self) -> &'static str {
        match self {
            Tier::Quick => "quick",
            Tier::Thorough => "thorough",
        }
    }
    /// pick by tier
    pub fn pick<T>(self, quick: T, thorough: T) -> T {
        match self {
            Tier::Quick => quick,
            Tier::Thorough => thorough,
        }
    }
}

// ------------------------------------------------------------------------------------------
// concrete inputs

#[derive(Clone, Debug, Hash, PartialEq, Eq)]
pub struct Line {
    pub bytes: Vec<u8>,
    pub decode: bool,
}
impl Line {
    pub fn new(bytes: Vec<u8>, decode: bool) -> Self {
        Line { bytes, decode }
    }
    fn to_json(&self) -> Value {
        json!({"hex": hex(&self.bytes), "text": esc(&self.bytes), "decode": self.decode})
    }
    fn from_json(v: &Value) -> Option<Line> {
        Some(Line { bytes: unhex(v.get("hex")?.as_str()?)?, decode: v.get("decode")?.as_bool()? })
    }
}

/// Every case any check executes is one of these; a replay file stores exactly this.
#[derive(Clone, Debug, Hash, PartialEq, Eq)]
pub enum Input {
    /// lines fed in order to one fresh parser
    History { lines: Vec<Line> },
    /// C17: the history with and without `extra` inserted before index `pos`
    Insert { lines: Vec<Line>, pos: usize, extra: Line },
    /// C17: two parsers fed interleaved (`order[i]` = true takes the next line of `a`)
    Interleave { a: Vec<Line>, b: Vec<Line>, order: Vec<bool> },
    /// `messages::parse(bytes)`
    Payload { bytes: Vec<u8> },
    /// payload check through the sentence path: `chars` cut at `cuts` into fragments
    SentPayload { chars: Vec<u8>, fill: u8, cuts: Vec<usize> },
    /// payload check on a *used* parser: `prefix` is fed first, then the payload travels in one
    /// sentence numbered (n, k, id) with decoding on
    SentAfter { prefix: Vec<Line>, n: u8, k: u8, id: Option<u8>, chars: Vec<u8>, fill: u8 },
    /// `messages::unarmor(data, fill)`
    Unarmor { data: Vec<u8>, fill: usize },
    /// `ShipType::parse(code)` / `u8::from`
    ShipCode { code: u8 },
    /// bytes on the CLI's standard input
    Stream { bytes: Vec<u8> },
}

impl Input {
    pub fn history(lines: Vec<Line>) -> Input {
        Input::History { lines }
    }
    pub fn to_json(&self) -> Value {
        let lines = |l: &Vec<Line>| Value::Array(l.iter().map(|x| x.to_json()).collect());
        match self {
            Input::History { lines: l } => json!({"kind": "history", "lines": lines(l)}),
            Input::Insert { lines: l, pos, extra } => json!({"kind": "insert", "lines": lines(l), "pos": pos, "extra": extra.to_json()}),
            Input::Interleave { a, b, order } => json!({"kind": "interleave", "a": lines(a), "b": lines(b), "order": order}),
            Input::Payload { bytes } => json!({"kind": "payload", "hex": hex(bytes), "len": bytes.len()}),
            Input::SentPayload { chars, fill, cuts } => json!({"kind": "sentpayload", "hex": hex(chars), "text": esc(chars), "fill": fill, "cuts": cuts}),
            Input::SentAfter { prefix, n, k, id, chars, fill } => json!({"kind": "sentafter", "prefix": lines(prefix), "n": n, "k": k, "id": id, "hex": hex(chars), "text": esc(chars), "fill": fill}),
            Input::Unarmor { data, fill } => json!({"kind": "unarmor", "hex": hex(data), "text": esc(data), "fill": fill}),
            Input::ShipCode { code } => json!({"kind": "shipcode", "code": code}),
            Input::Stream { bytes } => json!({"kind": "stream", "hex": hex(bytes), "text": crate::util::clip(&esc(bytes), 2000)}),
        }
    }
    pub fn from_json(v: &Value) -> Option<Input> {
        let lines = |v: &Value| -> Option<Vec<Line>> { v.as_array()?.iter().map(Line::from_json).collect() };
        let hexf = |v: &Value| -> Option<Vec<u8>> { unhex(v.get("hex")?.as_str()?) };
        Some(match v.get("kind")?.as_str()? {
            "history" => Input::History { lines: lines(v.get("lines")?)? },
            "insert" => Input::Insert {
                lines: lines(v.get("lines")?)?,
                pos: v.get("pos")?.as_u64()? as usize,
                extra: Line::from_json(v.get("extra")?)?,
            },
            "interleave" => Input::Interleave {
                a: lines(v.get("a")?)?,
                b: lines(v.get("b")?)?,
                order: v.get("order")?.as_array()?.iter().map(|x| x.as_bool()).collect::<Option<Vec<bool>>>()?,
            },
            "payload" => Input::Payload { bytes: hexf(v)? },
            "sentpayload" => Input::SentPayload {
                chars: hexf(v)?,
                fill: v.get("fill")?.as_u64()? as u8,
                cuts: v.get("cuts")?.as_array()?.iter().map(|x| x.as_u64().map(|y| y as usize)).collect::<Option<Vec<usize>>>()?,
            },
            "sentafter" => Input::SentAfter {
                prefix: lines(v.get("prefix")?)?,
                n: v.get("n")?.as_u64()? as u8,
                k: v.get("k")?.as_u64()? as u8,
                id: v.get("id").and_then(|x| x.as_u64()).map(|x| x as u8),
                chars: hexf(v)?,
                fill: v.get("fill")?.as_u64()? as u8,
            },
            "unarmor" => Input::Unarmor { data: hexf(v)?, fill: v.get("fill")?.as_u64()? as usize },
            "shipcode" => Input::ShipCode { code: v.get("code")?.as_u64()? as u8 },
            "stream" => Input::Stream { bytes: hexf(v)? },
            _ => return None,
        })
    }
}

// ------------------------------------------------------------------------------------------
// verdicts

#[derive(Clone, Debug)]
pub enum Verdict {
    Pass,
    /// the case fails, and the failure matches the executable signature of a known root cause.
    /// Whether that signature is *listed* in KNOWN_FINDINGS.txt is decided by the engine.
    Known { sig: &'static str, expected: String, observed: String },
    Fail { expected: String, observed: String },
    /// the case is outside the property's domain (counted, not judged)
    Excluded(&'static str),
}

impl Verdict {
    pub fn fail(expected: impl Into<String>, observed: impl Into<String>) -> Verdict {
        Verdict::Fail { expected: expected.into(), observed: observed.into() }
    }
}

/// What a check reports about one case besides the verdict.
#[derive(Default)]
pub struct Rec {
    /// library calls whose result was compared
    pub evals: u64,
    /// the case is non-trivial by the property's stated rule
    pub nontrivial: bool,
    /// generator classes this case falls into (for the histogram)
    pub classes: Vec<&'static str>,
    /// set by the engine when it wants a readable description of this case for the samples
    pub want_note: bool,
    pub note: Option<String>,
}
impl Rec {
    pub fn class(&mut self, c: &'static str) {
        self.classes.push(c);
    }
}

pub type CheckFn = fn(sub: &str, cfg: &'static dyn Config, input: &Input, rec: &mut Rec) -> Verdict;

// ------------------------------------------------------------------------------------------
// known findings

#[derive(Clone, Debug)]
pub struct Finding {
    pub property: String,
    pub sig: String,
    pub text: String,
}

pub fn load_findings() -> Vec<Finding> {
    let path = format!("{}/KNOWN_FINDINGS.txt", VERIF_DIR);
    let mut out = Vec::new();
    if let Ok(s) = std::fs::read_to_string(&path) {
        for l in s.lines() {
            let l = l.trim();
            if let Some(rest) = l.strip_prefix("finding:") {
                let rest = rest.trim();
                let mut property = String::new();
                let mut sig = String::new();
                let mut words = rest.split_whitespace();
                let mut consumed = 0;
                for w in words.by_ref().take(2) {
                    if let Some(p) = w.strip_prefix("property=") {
                        property = p.to_string();
                        consumed += 1;
                    } else if let Some(s) = w.strip_prefix("sig=") {
                        sig = s.to_string();
                        consumed += 1;
                    }
                }
                if consumed == 2 {
                    let text = words.collect::<Vec<_>>().join(" ");
                    out.push(Finding { property, sig, text });
                }
            }
        }
    }
    out
}

// ------------------------------------------------------------------------------------------
// the per-run context

#[derive(Clone, Debug)]
pub struct ViolationRec {
    pub sub: String,
    pub config: String,
    pub input: Input,
    pub expected: String,
    pub observed: String,
}

#[derive(Clone, Debug, Default)]
pub struct SubStat {
    pub cases: u64,
    pub evals: u64,
    pub exhaustive: bool,
    pub space: String,
}

pub struct Ctx {
    pub prop: &'static str,
    pub tier: Tier,
    pub seed: u64,
    pub start: Instant,
    pub cases: u64,
    pub evals: u64,
    pub nontrivial: HashSet<u64>,
    /// non-trivial cases counted by sweeps that guarantee distinctness by construction
    pub nontrivial_by_construction: u64,
    pub classes: BTreeMap<String, u64>,
    pub excluded: BTreeMap<String, u64>,
    pub samples: Vec<Value>,
    pub violations: Vec<ViolationRec>,
    /// sig -> (count, first example)
    pub known: BTreeMap<String, (u64, String)>,
    pub findings: Vec<Finding>,
    pub subs: BTreeMap<String, SubStat>,
    pub rule: String,
    pub assumptions: Vec<String>,
    pub notes: Vec<String>,
    pub per_config: BTreeMap<String, u64>,
    pub fuzz_execs: u64,
    next_sample_at: u64,
    sampled_subs: HashSet<String>,
    sample_budget: usize,
    pub max_violations_per_sub: usize,
}

impl Ctx {
    pub fn new(prop: &'static str, tier: Tier, seed: u64) -> Ctx {
        let findings = load_findings().into_iter().filter(|f| f.property == prop).collect();
        Ctx {
            prop,
            tier,
            seed,
            start: Instant::now(),
            cases: 0,
            evals: 0,
            nontrivial: HashSet::new(),
            nontrivial_by_construction: 0,
            classes: BTreeMap::new(),
            excluded: BTreeMap::new(),
            samples: Vec::new(),
            violations: Vec::new(),
            known: BTreeMap::new(),
            findings,
            subs: BTreeMap::new(),
            rule: String::new(),
            assumptions: Vec::new(),
            notes: Vec::new(),
            per_config: BTreeMap::new(),
            fuzz_execs: 0,
            next_sample_at: 1,
            sampled_subs: HashSet::new(),
            sample_budget: 24,
            max_violations_per_sub: 1,
        }
    }

    /// a worker-thread copy that shares nothing; merged back with `merge`
    pub fn fork(&self) -> Ctx {
        let mut c = Ctx::new(self.prop, self.tier, self.seed);
        c.findings = self.findings.clone();
        c.start = self.start;
        c.next_sample_at = u64::MAX; // workers do not sample
        c
    }

    pub fn merge(&mut self, o: Ctx) {
        self.cases += o.cases;
        self.evals += o.evals;
        self.nontrivial.extend(o.nontrivial);
        self.nontrivial_by_construction += o.nontrivial_by_construction;
        for (k, v) in o.classes {
            *self.classes.entry(k).or_default() += v;
        }
        for (k, v) in o.excluded {
            *self.excluded.entry(k).or_default() += v;
        }
        for (k, v) in o.per_config {
            *self.per_config.entry(k).or_default() += v;
        }
        for (k, (n, ex)) in o.known {
            let e = self.known.entry(k).or_insert((0, ex));
            e.0 += n;
        }
        for (k, v) in o.subs {
            let e = self.subs.entry(k).or_default();
            e.cases += v.cases;
            e.evals += v.evals;
            e.exhaustive |= v.exhaustive;
            if e.space.is_empty() {
                e.space = v.space;
            }
        }
        self.violations.extend(o.violations);
        self.samples.extend(o.samples);
    }

    pub fn sub_seed(&self, sub: &str, cfg: &str) -> u64 {
        hash_of(&(self.seed, self.prop, sub, cfg))
    }

    pub fn sub_failed(&self, sub: &str) -> bool {
        self.violations.iter().filter(|v| v.sub == sub).count() >= self.max_violations_per_sub
    }

    pub fn mark_exhaustive(&mut self, sub: &str, space: &str) {
        let e = self.subs.entry(sub.to_string()).or_default();
        e.exhaustive = true;
        if e.space.is_empty() {
            e.space = space.to_string();
        } else if !e.space.contains(space) {
            e.space = format!("{} ; {}", e.space, space);
        }
    }

    fn is_listed(&self, sig: &str) -> bool {
        self.findings.iter().any(|f| f.sig == sig)
    }

    /// Run one case; `counting` is false while proptest is shrinking.
    /// Returns the verdict after known-finding resolution (Known only if listed).
    pub fn run_case(&mut self, sub: &str, cfg: &'static dyn Config, input: &Input, check: CheckFn, counting: bool) -> Verdict {
        let mut rec = Rec::default();
        // samples: the first case of every sub-check, then a geometric schedule over all cases
        let first_of_sub = counting && !sub.starts_with("regress:") && self.next_sample_at != u64::MAX && !self.sampled_subs.contains(sub);
        if counting && self.samples.len() < self.sample_budget && (first_of_sub || self.cases + 1 >= self.next_sample_at) {
            rec.want_note = true;
        }
        let slot = my_slot();
        slot.start_ms.store(now_ms(), Ordering::Release);
        slot.input.store(input as *const Input as *mut Input, Ordering::Release);
        let v = check(sub, cfg, input, &mut rec);
        slot.input.store(std::ptr::null_mut(), Ordering::Release);
        let v = match v {
            Verdict::Known { sig, expected, observed } if !self.is_listed(sig) => Verdict::Fail {
                expected,
                observed: format!("{} [matches signature {} which is not listed as a finding]", observed, sig),
            },
            other => other,
        };
        if counting {
            self.cases += 1;
            self.evals += rec.evals;
            *self.per_config.entry(cfg.name().to_string()).or_default() += rec.evals;
            let st = self.subs.entry(sub.to_string()).or_default();
            st.cases += 1;
            st.evals += rec.evals;
            for c in &rec.classes {
                *self.classes.entry((*c).to_string()).or_default() += 1;
            }
            match &v {
                Verdict::Excluded(why) => {
                    *self.excluded.entry((*why).to_string()).or_default() += 1;
                }
                Verdict::Known { sig, expected, observed } => {
                    let e = self.known.entry((*sig).to_string()).or_insert((0, String::new()));
                    e.0 += 1;
                    if e.1.is_empty() {
                        e.1 = format!("input {} expected {} observed {}", crate::util::clip(&input.to_json().to_string(), 400), expected, observed);
                    }
                    if rec.nontrivial {
                        self.nontrivial.insert(hash_of(input));
                    }
                }
                _ => {
                    if rec.nontrivial {
                        self.nontrivial.insert(hash_of(input));
                    }
                }
            }
            if rec.want_note {
                let mut s = json!({"sub": sub, "config": cfg.name(), "case_no": self.cases, "input": clip_json(input.to_json())});
                if let Some(n) = rec.note {
                    s["outcome"] = Value::String(crate::util::clip(&n, 1200));
                }
                s["nontrivial"] = Value::Bool(rec.nontrivial);
                self.samples.push(s);
                self.sampled_subs.insert(sub.to_string());
                if self.cases >= self.next_sample_at {
                    self.next_sample_at = (self.cases + 1).saturating_mul(6);
                }
            }
        }
        v
    }

    /// Run a case from a deterministic sweep: a failure is recorded as a violation directly.
    /// Returns false if the case failed.
    pub fn sweep_case(&mut self, sub: &str, cfg: &'static dyn Config, input: &Input, check: CheckFn) -> bool {
        if self.sub_failed(sub) {
            // one minimal failure per sub-check is reported; the rest of the sweep is skipped
            return true;
        }
        match self.run_case(sub, cfg, input, check, true) {
            Verdict::Fail { expected, observed } => {
                self.record_violation(sub, cfg, input.clone(), expected, observed);
                false
            }
            _ => true,
        }
    }

    pub fn record_violation(&mut self, sub: &str, cfg: &dyn Config, input: Input, expected: String, observed: String) {
        self.violations.push(ViolationRec { sub: sub.to_string(), config: cfg.name().to_string(), input, expected, observed });
    }

    /// Drive `check` with inputs from `strat`; on failure proptest shrinks and the minimal
    /// input is recorded as a violation. Large case counts are split into shards (own seed,
    /// own proptest runner, own thread); the result is a pure function of (code, seed, tier).
    pub fn run_proptest<S>(&mut self, sub: &str, cfg: &'static dyn Config, cases: u32, strat: S, check: CheckFn)
    where
        S: Strategy<Value = Input> + Sync,
    {
        if self.sub_failed(sub) {
            return;
        }
        let shards: u32 = if cases >= 16_000 { (cases / 8_000).min(12) } else { 1 };
        if shards == 1 {
            let seed = self.sub_seed(sub, cfg.name());
            self.run_proptest_shard(sub, cfg, cases, &strat, check, seed);
            return;
        }
        let per = cases / shards;
        let mut forks: Vec<Ctx> = (0..shards).map(|_| self.fork()).collect();
        // the first shard draws the samples for this sub-check
        forks[0].next_sample_at = 1;
        forks[0].sample_budget = 3;
        let base = self.sub_seed(sub, cfg.name());
        std::thread::scope(|sc| {
            for (i, f) in forks.iter_mut().enumerate() {
                let strat = &strat;
                let n = if i as u32 == shards - 1 { cases - per * (shards - 1) } else { per };
                sc.spawn(move || {
                    f.run_proptest_shard(sub, cfg, n, strat, check, crate::util::mix64(base ^ (i as u64 + 1).wrapping_mul(0x9e3779b97f4a7c15)));
                });
            }
        });
        let mut first = true;
        for f in forks {
            // one violation per sub-check is reported: the first shard's, in shard order
            let had = self.sub_failed(sub);
            let mut f = f;
            if had {
                f.violations.clear();
            } else if f.violations.len() > 1 {
                f.violations.truncate(1);
            }
            self.merge(f);
            first = false;
        }
        let _ = first;
    }

    /// for strategies that are not `Sync` (boxed unions): one runner, one thread
    pub fn run_proptest_serial<S>(&mut self, sub: &str, cfg: &'static dyn Config, cases: u32, strat: S, check: CheckFn)
    where
        S: Strategy<Value = Input>,
    {
        if self.sub_failed(sub) {
            return;
        }
        let seed = self.sub_seed(sub, cfg.name());
        self.run_proptest_shard(sub, cfg, cases, &strat, check, seed);
    }

    fn run_proptest_shard<S>(&mut self, sub: &str, cfg: &'static dyn Config, cases: u32, strat: &S, check: CheckFn, seed: u64)
    where
        S: Strategy<Value = Input>,
    {
        let config = PtConfig {
            cases,
            failure_persistence: None,
            max_shrink_iters: 20_000,
            // only ever reached when single cases are pathologically slow (a hanging command-line tool):
            // ordinary shrinking ends within seconds, long before this bound, so replay files stay reproducible
            max_shrink_time: 900_000,
            max_global_rejects: 1_000_000,
            rng_seed: RngSeed::Fixed(seed),
            verbose: 0,
            ..PtConfig::default()
        };
        let mut runner = TestRunner::new(config);
        let failed = Cell::new(false);
        let me = RefCell::new(&mut *self);
        let result = runner.run(strat, |input| {
            let counting = !failed.get();
            let v = me.borrow_mut().run_case(sub, cfg, &input, check, counting);
            match v {
                Verdict::Fail { .. } => {
                    failed.set(true);
                    Err(TestCaseError::fail("property violated"))
                }
                _ => Ok(()),
            }
        });
        drop(me);
        match result {
            Ok(()) => {}
            Err(TestError::Fail(_, minimal)) => {
                // re-run the shrunk input to obtain its own expected / observed texts
                let mut rec = Rec::default();
                rec.want_note = true;
                let (expected, observed) = match check(sub, cfg, &minimal, &mut rec) {
                    Verdict::Fail { expected, observed } => (expected, observed),
                    Verdict::Known { sig, expected, observed } => (expected, format!("{} [signature {}]", observed, sig)),
                    other => ("(shrunk input no longer fails)".to_string(), format!("{:?}", other)),
                };
                self.record_violation(sub, cfg, minimal, expected, observed);
            }
            Err(TestError::Abort(why)) => {
                infra_error(&format!("proptest aborted in {} / {}: {}", self.prop, sub, why));
            }
        }
    }


    /// Thorough tier only: one bounded libFuzzer campaign (coverage-guided) with this property's
    /// own check function as the in-target oracle (DESIGN.md section 6). The campaign binary is
    /// built by ./check from /repo's current sources; if it is not there (no nightly toolchain,
    /// build failed) the campaign is skipped and the evidence says so. A saved crash input is
    /// decoded and re-judged through the ordinary path, so a violation found by the fuzzer is
    /// reported, shrunk and replayed like any other; an artifact that does not reproduce is
    /// noted, never reported.
    pub fn fuzz_campaign(&mut self, target: &str, runs: u64, seeded: bool, check: CheckFn) {
        let bin = format!("{}/target/fuzz/x86_64-unknown-linux-gnu/release/{}", VERIF_DIR, target);
        if std::env::var("AISVERIF_FUZZ").map(|v| v == "0").unwrap_or(false) || !std::path::Path::new(&bin).exists() {
            self.notes.push(format!("libFuzzer campaign {} skipped: {} not built", target, bin));
            return;
        }
        let mode = if seeded { "seeded" } else { "empty" };
        let sub = format!("libfuzzer:{}:{}", target, mode);
        let work = format!("{}/target/fuzzwork/{}-{}-{}", VERIF_DIR, self.prop, target, mode);
        let _ = std::fs::remove_dir_all(&work);
        let corpus = format!("{}/corpus", work);
        let arts = format!("{}/artifacts/", work);
        if std::fs::create_dir_all(&corpus).is_err() || std::fs::create_dir_all(&arts).is_err() {
            self.notes.push(format!("libFuzzer campaign {} skipped: cannot create {}", target, work));
            return;
        }
        if seeded {
            if let Ok(rd) = std::fs::read_dir(format!("{}/fuzz/seeds/{}", VERIF_DIR, target)) {
                for e in rd.flatten() {
                    let _ = std::fs::copy(e.path(), format!("{}/{}", corpus, e.file_name().to_string_lossy()));
                }
            }
        }
        let mut cmd = std::process::Command::new(&bin);
        cmd.arg(&corpus)
            .arg(format!("-runs={}", runs))
            .arg(format!("-seed={}", (self.seed % 0xffff_fff0) + 1))
            .arg("-len_control=0")
            .arg("-max_len=2048")
            .arg("-timeout=60")
            .arg("-rss_limit_mb=4096")
            .arg("-max_total_time=900")
            .arg("-print_final_stats=1")
            .arg(format!("-artifact_prefix={}", arts))
            .env("AISVERIF_ARM", self.prop)
            .stdout(std::process::Stdio::null())
            .stderr(std::process::Stdio::piped());
        if target == "fz_lines" {
            cmd.arg(format!("-dict={}/fuzz/nmea.dict", VERIF_DIR));
        }
        let out = match cmd.output() {
            Ok(o) => o,
            Err(e) => {
                self.notes.push(format!("libFuzzer campaign {} skipped: cannot start: {}", target, e));
                return;
            }
        };
        let log = String::from_utf8_lossy(&out.stderr);
        let stat = |key: &str| -> u64 {
            log.lines().filter(|l| l.starts_with(key)).filter_map(|l| l.split_whitespace().last().and_then(|v| v.parse().ok())).last().unwrap_or(0)
        };
        let execs = stat("stat::number_of_executed_units:");
        let cov = log.lines().rev().find_map(|l| l.split(" cov: ").nth(1).and_then(|r| r.split_whitespace().next()).and_then(|v| v.parse::<u64>().ok())).unwrap_or(0);
        let corpus_size = std::fs::read_dir(&corpus).map(|d| d.count()).unwrap_or(0);
        {
            let st = self.subs.entry(sub.clone()).or_default();
            st.cases += execs;
            st.evals += execs;
            st.space = format!("libFuzzer -runs={} from {} corpus: {} executions, {} coverage edges, final corpus {} inputs", runs, mode, execs, cov, corpus_size);
        }
        self.fuzz_execs += execs;
        // saved inputs
        let mut found: Vec<std::path::PathBuf> = std::fs::read_dir(&arts).map(|d| d.flatten().map(|e| e.path()).collect()).unwrap_or_default();
        found.sort();
        for f in found {
            let name = f.file_name().map(|n| n.to_string_lossy().to_string()).unwrap_or_default();
            let data = match std::fs::read(&f) {
                Ok(d) => d,
                Err(_) => continue,
            };
            let input = if target == "fz_lines" { crate::fuzzglue::decode_lines(&data, self.prop) } else { crate::fuzzglue::decode_payload(&data, self.prop) };
            match input {
                Some(input) => {
                    let before = self.violations.len();
                    for cfg in crate::fuzzglue::configs_for(self.prop) {
                        if !self.sweep_case(&sub, cfg, &input, check) {
                            // reduce a failing history by greedy line removal before reporting it
                            if let (Some(v), Input::History { lines }) = (self.violations.pop(), &input) {
                                let fails = |ls: &Vec<Line>| {
                                    let mut r = Rec::default();
                                    matches!(check(&sub, cfg, &Input::History { lines: ls.clone() }, &mut r), Verdict::Fail { .. })
                                };
                                let mut cur = lines.clone();
                                let mut i = 0;
                                while i < cur.len() && cur.len() > 1 {
                                    let mut cand = cur.clone();
                                    cand.remove(i);
                                    if fails(&cand) {
                                        cur = cand;
                                    } else {
                                        i += 1;
                                    }
                                }
                                let small = Input::History { lines: cur };
                                let mut r = Rec::default();
                                match check(&sub, cfg, &small, &mut r) {
                                    Verdict::Fail { expected, observed } => self.record_violation(&sub, cfg, small, expected, observed),
                                    _ => self.violations.push(v),
                                }
                            }
                        }
                    }
                    if self.violations.len() == before {
                        self.notes.push(format!("libFuzzer saved {} but the input does not fail when re-judged (timeout / out-of-memory artifact?); not reported", name));
                    }
                }
                None => self.notes.push(format!("libFuzzer saved {} which does not decode into an input", name)),
            }
        }
        if !out.status.success() && self.violations.is_empty() {
            self.notes.push(format!("libFuzzer {} exited with {:?} without a reproducible failing input", target, out.status.code()));
        }
    }

    /// Replay every file under replays/regress/ that belongs to this property.
    pub fn replay_regressions(&mut self, check: CheckFn) {
        let dir = format!("{}/replays/regress", VERIF_DIR);
        let mut files: Vec<PathBuf> = match std::fs::read_dir(&dir) {
            Ok(rd) => rd.filter_map(|e| e.ok().map(|e| e.path())).collect(),
            Err(_) => return,
        };
        files.sort();
        for f in files {
            let s = match std::fs::read_to_string(&f) {
                Ok(s) => s,
                Err(_) => continue,
            };
            let v: Value = match serde_json::from_str(&s) {
                Ok(v) => v,
                Err(e) => infra_error(&format!("bad regression file {}: {}", f.display(), e)),
            };
            let props: Vec<String> = match v.get("properties").and_then(|p| p.as_array()) {
                Some(a) => a.iter().filter_map(|x| x.as_str().map(|s| s.to_string())).collect(),
                None => vec![v.get("property").and_then(|p| p.as_str()).unwrap_or("").to_string()],
            };
            if !props.iter().any(|p| p == self.prop) {
                continue;
            }
            let input = match v.get("input").and_then(Input::from_json) {
                Some(i) => i,
                None => infra_error(&format!("regression file {} has no usable input", f.display())),
            };
            let sub = v.get("sub").and_then(|s| s.as_str()).unwrap_or("regress").to_string();
            let cfgs: Vec<&'static dyn Config> = match v.get("config").and_then(|c| c.as_str()) {
                Some("all") | None => crate::adapter::configs().to_vec(),
                Some(name) => match crate::adapter::config_by_name(name) {
                    Some(c) => vec![c],
                    None => infra_error(&format!("regression file {}: unknown config {}", f.display(), name)),
                },
            };
            for cfg in cfgs {
                let label = format!("regress:{}", sub);
                self.sweep_case(&label, cfg, &input, check);
            }
        }
    }

    pub fn distinct_nontrivial(&self) -> u64 {
        self.nontrivial.len() as u64 + self.nontrivial_by_construction
    }

    /// Write evidence, print the lines the interface asks for, and return the exit code.
    pub fn finish(mut self) -> i32 {
        let wall = self.start.elapsed().as_secs_f64();
        let mut replay_paths = Vec::new();
        let found_dir = format!("{}/replays/found", VERIF_DIR);
        if !self.violations.is_empty() {
            let _ = std::fs::create_dir_all(&found_dir);
        }
        for v in &self.violations {
            let body = json!({
                "property": self.prop,
                "sub": v.sub.strip_prefix("regress:").unwrap_or(&v.sub),
                "config": v.config,
                "input": v.input.to_json(),
                "expected": v.expected,
                "observed": v.observed,
                "seed": self.seed,
                "tier": self.tier.name(),
            });
            let h = hash_of(&(self.prop, &v.sub, &v.config, &v.input));
            let path = format!("{}/{}-{:016x}.json", found_dir, self.prop, h);
            if let Err(e) = std::fs::write(&path, serde_json::to_string_pretty(&body).unwrap()) {
                infra_error(&format!("cannot write replay file {}: {}", path, e));
            }
            replay_paths.push(path);
        }
        let exhaustive_all = !self.subs.is_empty() && self.subs.values().all(|s| s.exhaustive);
        let known_json: Vec<Value> = self
            .known
            .iter()
            .map(|(sig, (n, ex))| json!({"sig": sig, "cases_matched": n, "example": ex}))
            .collect();
        let subs_json: BTreeMap<String, Value> = self
            .subs
            .iter()
            .map(|(k, s)| (k.clone(), json!({"cases": s.cases, "evaluations": s.evals, "exhaustive": s.exhaustive, "space": s.space})))
            .collect();
        if self.samples.is_empty() {
            self.samples.push(json!("no case was sampled (nothing ran)"));
        }
        let evidence = json!({
            "property_id": self.prop,
            "tier": self.tier.name(),
            "seed": self.seed,
            "level": "exploration",
            "coverage": {
                "evaluations": self.evals.max(self.cases),
                "cases": self.cases,
                "distinct_nontrivial": self.distinct_nontrivial(),
                "rule": self.rule,
                "samples": self.samples,
                "exhaustive": exhaustive_all,
                "sub_checks": subs_json,
                "classes": self.classes,
                "excluded_from_domain": self.excluded,
                "evaluations_per_configuration": self.per_config,
                "libfuzzer_executions": self.fuzz_execs,
                "known_findings_matched": known_json,
                "notes": self.notes,
            },
            "assumptions": self.assumptions,
            "wall_s": (wall * 1000.0).round() / 1000.0,
            "violations": self.violations.len(),
        });
        let ev_dir = format!("{}/evidence", VERIF_DIR);
        let _ = std::fs::create_dir_all(&ev_dir);
        let ev_path = format!("{}/{}.json", ev_dir, self.prop);
        if let Err(e) = std::fs::write(&ev_path, serde_json::to_string_pretty(&evidence).unwrap()) {
            infra_error(&format!("cannot write evidence {}: {}", ev_path, e));
        }
        // known findings: one line per *listed* finding of this property
        for f in &self.findings {
            let n = self.known.get(&f.sig).map(|x| x.0).unwrap_or(0);
            println!("KNOWN-FINDING: property={} sig={} {} [matched {} generated case(s) this run]", self.prop, f.sig, f.text, n);
        }
        println!(
            "{} {}: {} cases, {} evaluations, {} distinct non-trivial, {} violation(s), {:.1}s (seed {})",
            self.prop,
            self.tier.name(),
            self.cases,
            self.evals,
            self.distinct_nontrivial(),
            self.violations.len(),
            wall,
            self.seed
        );
        if self.violations.is_empty() {
            0
        } else {
            for (v, p) in self.violations.iter().zip(replay_paths.iter()) {
                println!("  sub-check {} [{}]: expected {} ; observed {}", v.sub, v.config, crate::util::clip(&v.expected, 600), crate::util::clip(&v.observed, 600));
                println!("VIOLATION property={} replay={}", self.prop, p);
            }
            1
        }
    }
}

fn clip_json(v: Value) -> Value {
    match v {
        Value::String(s) => Value::String(crate::util::clip(&s, 600)),
        Value::Array(a) => {
            let n = a.len();
            let mut out: Vec<Value> = a.into_iter().take(24).map(clip_json).collect();
            if n > 24 {
                out.push(Value::String(format!("… {} more", n - 24)));
            }
            Value::Array(out)
        }
        Value::Object(m) => {
            // samples are for readers: the escaped text is kept, the hex twin is dropped
            let has_text = m.contains_key("text");
            Value::Object(m.into_iter().filter(|(k, _)| !(has_text && k == "hex")).map(|(k, v)| (k, clip_json(v))).collect())
        }
        other => other,
    }
}

// ------------------------------------------------------------------------------------------
// fidelity pass (DESIGN.md 2.2): the inputs of a run are collected, replayed by `exec_real` built
// against the real `ais` package under each real feature set, and the canonical outcomes must equal
// what the wrapper copy of that configuration produces in this process.

static COLLECTOR: std::sync::Mutex<Option<Vec<Input>>> = std::sync::Mutex::new(None);
pub const COLLECT_CAP: usize = 60_000;

pub fn collector_enable() {
    *COLLECTOR.lock().unwrap() = Some(Vec::new());
}

/// called by the checks that feed the fidelity pass; cheap when the collector is off
pub fn collect(input: &Input) {
    if let Ok(mut g) = COLLECTOR.try_lock() {
        if let Some(v) = g.as_mut() {
            if v.len() < COLLECT_CAP && matches!(input, Input::History { .. } | Input::Payload { .. } | Input::Unarmor { .. }) {
                v.push(input.clone());
            }
        }
    }
}

impl Ctx {
    pub fn fidelity_pass(&mut self) {
        let inputs = match COLLECTOR.lock().unwrap().take() {
            Some(v) if !v.is_empty() => v,
            _ => return,
        };
        let dir = format!("{}/target/fidelity", VERIF_DIR);
        let _ = std::fs::create_dir_all(&dir);
        let corpus = format!("{}/{}.corpus", dir, self.prop);
        let mut text = String::new();
        for i in &inputs {
            match i {
                Input::History { lines } => {
                    text.push_str(&format!("H {}\n", lines.len()));
                    for l in lines {
                        text.push_str(&format!("{} {}\n", l.decode as u8, hex(&l.bytes)));
                    }
                }
                Input::Payload { bytes } => text.push_str(&format!("P {}\n", hex(bytes))),
                Input::Unarmor { data, fill } => text.push_str(&format!("U {} {}\n", fill, hex(data))),
                _ => {}
            }
        }
        if std::fs::write(&corpus, text).is_err() {
            self.notes.push("fidelity pass skipped: cannot write the corpus".into());
            return;
        }
        let mut compared = 0u64;
        for cfg in crate::adapter::configs() {
            let bin = format!("{}/target/real_{}/release/exec_real", VERIF_DIR, cfg.name());
            if !std::path::Path::new(&bin).exists() {
                self.notes.push(format!("fidelity pass skipped for {}: {} not built", cfg.name(), bin));
                continue;
            }
            let out = match std::process::Command::new(&bin).arg(&corpus).output() {
                Ok(o) if o.status.success() => String::from_utf8_lossy(&o.stdout).to_string(),
                Ok(o) => infra_error(&format!("fidelity pass: {} exited with {:?}: {}", bin, o.status.code(), String::from_utf8_lossy(&o.stderr))),
                Err(e) => infra_error(&format!("fidelity pass: cannot run {}: {}", bin, e)),
            };
            let mut real = out.lines();
            for i in &inputs {
                let mine: Vec<String> = match i {
                    Input::History { lines } => cfg.canon_history(&lines.iter().map(|l| (l.bytes.clone(), l.decode)).collect::<Vec<_>>()),
                    Input::Payload { bytes } => vec![cfg.canon_parse(bytes)],
                    Input::Unarmor { data, fill } => vec![cfg.canon_unarmor(data, *fill)],
                    _ => vec![],
                };
                for m in mine {
                    let r = real.next().unwrap_or("<missing line>");
                    compared += 1;
                    if r != m {
                        infra_error(&format!(
                            "fidelity pass: the wrapper copy of the {} configuration and the real `ais` package built with that feature set disagree on input {} : wrapper {:?} vs real {:?}. The in-process three-configuration trick misrepresents this tree; no verdict.",
                            cfg.name(),
                            crate::util::clip(&i.to_json().to_string(), 600),
                            crate::util::clip(&m, 300),
                            crate::util::clip(r, 300)
                        ));
                    }
                }
            }
        }
        self.notes.push(format!("fidelity pass: {} inputs replayed by exec_real built against the real package under std / alloc / none; {} outcomes compared with the in-process wrapper copies, all identical", inputs.len(), compared));
    }
}

/// Infrastructure trouble: never a VIOLATION line, exit code 2.
pub fn infra_error(msg: &str) -> ! {
    eprintln!("INFRASTRUCTURE ERROR (exit 2, no verdict): {}", msg);
    std::process::exit(2);
}

// ------------------------------------------------------------------------------------------
// watchdog (DESIGN.md 2.3): a case that keeps one library call busy for longer than
// CASE_LIMIT_MS is non-termination for C01 and "inconclusive" for every other property;
// a whole run exceeding its wall budget is always "inconclusive".

// One slot per worker thread (sharded sub-checks run up to 12 at once): a thread that is stuck keeps
// its own slot, whatever the others do.
pub struct Slot {
    input: AtomicPtr<Input>,
    start_ms: AtomicU64,
}
static SLOTS: std::sync::Mutex<Vec<std::sync::Arc<Slot>>> = std::sync::Mutex::new(Vec::new());
thread_local! {
    static MY_SLOT: std::sync::Arc<Slot> = {
        let s = std::sync::Arc::new(Slot { input: AtomicPtr::new(std::ptr::null_mut()), start_ms: AtomicU64::new(0) });
        SLOTS.lock().unwrap_or_else(|e| e.into_inner()).push(s.clone());
        s
    };
}
/// a check that legitimately waits on a child process restarts its own clock around the wait
pub fn watchdog_touch() {
    MY_SLOT.with(|s| s.start_ms.store(now_ms(), Ordering::Release));
}
fn my_slot() -> std::sync::Arc<Slot> {
    MY_SLOT.with(|s| s.clone())
}
static EPOCH: std::sync::OnceLock<Instant> = std::sync::OnceLock::new();

fn now_ms() -> u64 {
    EPOCH.get_or_init(Instant::now).elapsed().as_millis() as u64
}

pub const CASE_LIMIT_MS: u64 = 60_000;

pub fn start_watchdog(prop: &'static str, tier: Tier, seed: u64) {
    let _ = now_ms();
    let budget_s: u64 = match tier {
        Tier::Quick => 1800,
        Tier::Thorough => 6 * 3600,
    };
    std::thread::spawn(move || {
        let t0 = Instant::now();
        loop {
            std::thread::sleep(std::time::Duration::from_millis(500));
            if t0.elapsed().as_secs() > budget_s {
                infra_error(&format!("{} {}: wall-clock budget of {} s exceeded; inconclusive", prop, tier.name(), budget_s));
            }
            let slots: Vec<std::sync::Arc<Slot>> = SLOTS.lock().unwrap_or_else(|e| e.into_inner()).clone();
            for slot in slots {
                let p = slot.input.load(Ordering::Acquire);
                if p.is_null() {
                    continue;
                }
                let started = slot.start_ms.load(Ordering::Acquire);
                if now_ms().saturating_sub(started) <= CASE_LIMIT_MS {
                    continue;
                }
                // re-check that it is still the same case
                if slot.input.load(Ordering::Acquire) != p || slot.start_ms.load(Ordering::Acquire) != started {
                    continue;
                }
                if prop != "C01" {
                    infra_error(&format!("{}: one case has been running for more than {} ms; inconclusive", prop, CASE_LIMIT_MS));
                }
                // SAFETY: the worker that owns this slot is stuck inside the call that borrows this
                // input (pointer and start time unchanged), so the referent is alive; we only read it.
                let input = unsafe { (*p).clone() };
                let body = json!({
                    "property": "C01", "sub": "non-termination", "config": "all", "input": input.to_json(),
                    "expected": "the call returns", "observed": format!("still running after {} ms", CASE_LIMIT_MS),
                    "seed": seed, "tier": tier.name(),
                });
                let dir = format!("{}/replays/found", VERIF_DIR);
                let _ = std::fs::create_dir_all(&dir);
                let path = format!("{}/C01-hang-{:016x}.json", dir, hash_of(&input));
                let _ = std::fs::write(&path, serde_json::to_string_pretty(&body).unwrap());
                println!("VIOLATION property=C01 replay={}", path);
                std::process::exit(1);
            }
        }
    });
}
