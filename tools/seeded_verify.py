#!/usr/bin/env python3
"""Confirm candidate seeded changes (from sub-agents) in a scratch worktree, independent of /verif's checks:
the change applies, all three feature sets build, the 59 pinned tests pass, the demonstration fails with the
change and passes without it. Confirmed ones are copied to /verif/seeded/<id>/ (patch.diff, demo.rs, meta.json).
usage: seeded_verify.py /tmp/seed-C02 [...]"""
import subprocess, sys, os, json, shutil, re
WT='/tmp/verify-wt'
def sh(cmd, cwd=None, timeout=1800):
    p=subprocess.run(cmd, shell=True, cwd=cwd, stdout=subprocess.PIPE, stderr=subprocess.STDOUT, text=True, timeout=timeout)
    return p.returncode, p.stdout
def reset():
    sh("git checkout -- . && rm -rf tests", WT)
def main():
    if not os.path.isdir(WT):
        rc,out=sh(f"git -C /repo worktree add --detach {WT} HEAD"); print(out)
    results=[]
    for d in sys.argv[1:]:
        base=os.path.basename(d.rstrip('/')); rnd='r2-' if base.startswith('seed2-') else ('r3-' if base.startswith('seed3-') else ('r4-' if base.startswith('seed4-') else ('r5-' if base.startswith('seed5-') else ''))); pid=base.replace('seed5-','').replace('seed4-','').replace('seed3-','').replace('seed2-','').replace('seed-','')
        for n in (1,2,3):
            if os.path.isdir(f"/verif/seeded/{pid}-{rnd}{n}"): continue
            diff=f"{d}/_out/change{n}.diff"; demo=f"{d}/_out/demo{n}.rs"; md=f"{d}/_out/change{n}.md"
            if not (os.path.exists(diff) and os.path.exists(demo)):
                results.append((pid,n,"missing files")); continue
            reset()
            mdtext=open(md).read() if os.path.exists(md) else ""
            # the author's note says which feature flags the demonstration needs
            flags=""
            m=re.search(r"cargo test --offline((?: --[a-z-]+(?: [a-z]+)?)*?) --test demo%d" % n, mdtext)
            if m: flags=m.group(1).strip()
            elif re.search(r"--no-default-features\s+--features alloc\s+--test", mdtext): flags="--no-default-features --features alloc"
            elif re.search(r"--no-default-features\s+--test", mdtext): flags="--no-default-features"
            os.makedirs(f"{WT}/tests", exist_ok=True); shutil.copy(demo, f"{WT}/tests/demo{n}.rs")
            rc0,out0=sh(f"cargo test --offline {flags} --test demo{n} 2>&1 | tail -5", WT)
            clean_pass = "test result: ok" in out0
            rc,out=sh(f"git apply {diff}", WT)
            if rc!=0: results.append((pid,n,"diff does not apply: "+out[:100])); continue
            b1=sh("cargo build --offline 2>&1 | tail -1", WT)[1]; b2=sh("cargo build --offline --no-default-features --features alloc 2>&1 | tail -1", WT)[1]; b3=sh("cargo build --offline --no-default-features --lib 2>&1 | tail -1", WT)[1]
            builds = all("Finished" in b for b in (b1,b2,b3))
            os.rename(f"{WT}/tests", f"{WT}/tests_off")
            t=sh("cargo test --workspace --no-fail-fast --offline 2>&1 | grep -E '^test result' | head -1", WT)[1]
            os.rename(f"{WT}/tests_off", f"{WT}/tests")
            suite = "59 passed; 0 failed" in t
            rc1,out1=sh(f"cargo test --offline {flags} --test demo{n} 2>&1 | tail -8", WT)
            changed_fail = "test result: FAILED" in out1 or "panicked" in out1 or "overflowed its stack" in out1 or "SIGABRT" in out1 or "SIGSEGV" in out1 or "signal:" in out1
            ok = clean_pass and builds and suite and changed_fail
            results.append((pid,n,"CONFIRMED" if ok else f"REJECTED clean_pass={clean_pass} builds={builds} suite={suite} demo_fails_with_change={changed_fail}", flags))
            print(results[-1], flush=True)
            if ok:
                dest=f"/verif/seeded/{pid}-{rnd}{n}"; os.makedirs(dest, exist_ok=True)
                shutil.copy(diff, f"{dest}/patch.diff"); shutil.copy(demo, f"{dest}/demo.rs")
                if os.path.exists(md): shutil.copy(md, f"{dest}/change.md")
                needs = mdtext.strip()
                json.dump({"property":pid,"breaks":pid,"needs_to_manifest":needs[:3000],"demo_flags":flags,
                           "confirmed":{"how":"tools/seeded_verify.py in scratch worktree /tmp/verify-wt of /repo HEAD","diff_applies":True,"builds_std_alloc_none":True,"pinned_suite_59_pass":True,"demo_passes_on_clean":True,"demo_fails_with_change":True},
                           "source":"independent sub-agent given only the property text and a scratch worktree"}, open(f"{dest}/meta.json","w"), indent=1)
    reset()
    print("\n".join(str(r) for r in results))
if __name__=="__main__": main()
