#!/bin/sh
# tools/fuzz_campaign.sh <fz_lines|fz_payload> <ID> <seconds> [seed] [empty]
# One libFuzzer campaign with the oracle of property <ID> armed. Work files live under target/fuzzwork.
# Prints "FUZZ-OK ..." or "FUZZ-CRASH <artifact>"; exit 0 / 1.
T="$1"; ID="$2"; SECS="$3"; SEED="${4:-1}"; MODE="${5:-seeded}"
cd /verif || exit 2
BIN=target/fuzz/x86_64-unknown-linux-gnu/release/$T
[ -x "$BIN" ] || { echo "missing $BIN (cargo +nightly fuzz build)"; exit 2; }
W=target/fuzzwork/$T-$ID-$MODE
rm -rf "$W"; mkdir -p "$W/corpus" "$W/artifacts"
[ "$MODE" = "seeded" ] && cp fuzz/seeds/$T/* "$W/corpus/"
DICT=""; [ "$T" = "fz_lines" ] && DICT="-dict=fuzz/nmea.dict"
AISVERIF_ARM=$ID "$BIN" "$W/corpus" $DICT -max_total_time=$SECS -seed=$SEED -len_control=0 -max_len=2048 \
   -artifact_prefix="$W/artifacts/" -print_final_stats=1 -timeout=20 -rss_limit_mb=4096 > "$W/log" 2>&1
RC=$?
EXECS=$(grep -a "stat::number_of_executed_units" "$W/log" | awk '{print $2}')
COV=$(grep -a " cov: " "$W/log" | tail -1 | sed 's/.*cov: \([0-9]*\).*/\1/')
if ls "$W"/artifacts/* >/dev/null 2>&1; then
  A=$(ls "$W"/artifacts/* | head -1)
  echo "FUZZ-CRASH target=$T property=$ID artifact=$A execs=$EXECS"
  grep -a "FUZZ-FAILURE" "$W/log" | cut -c1-700
  exit 1
fi
echo "FUZZ-OK target=$T property=$ID mode=$MODE execs=$EXECS cov=$COV rc=$RC"
exit 0
