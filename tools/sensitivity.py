#!/usr/bin/env python3
"""Sensitivity / silence harness (DESIGN.md section 7).

For every mutant of mutants/catalogue.py (and every mutants/*.diff, and every seeded/<id>/patch.diff):
apply it to /repo's working tree, confirm the pinned test-suite still passes, run the quick check of each
property it is labelled with (thorough if quick stays silent and --thorough is given), record the result,
and revert /repo straight afterwards (git checkout -- .). Benign changes must stay silent on every check.

usage: tools/sensitivity.py [--only substr] [--thorough] [--benign] [--seeded] [--all-props]
Results: mutants/RESULTS.md (+ stdout).
"""
import subprocess, sys, os, json, time, glob, re
sys.path.insert(0, '/verif/mutants')
import catalogue
REPO='/repo'; VERIF='/verif'
ALL=[f"C{i:02d}" for i in range(1,21)]
def sh(cmd, cwd=None, timeout=3600):
    p=subprocess.run(cmd, shell=True, cwd=cwd, stdout=subprocess.PIPE, stderr=subprocess.STDOUT, text=True, timeout=timeout)
    return p.returncode, p.stdout
def clean():
    rc,out=sh("git status --porcelain", REPO)
    return out.strip()==""
def revert():
    sh("git checkout -- . && git clean -fdq -- src tests", REPO)
def tests_pass():
    rc,out=sh("cargo test --workspace --no-fail-fast --offline 2>&1 | grep -E '^test result' | head -1", REPO)
    ok = "59 passed; 0 failed" in out
    if ok and "--benign-seeded" in sys.argv:
        # property-preserving candidates must keep the suite green under the other two feature sets as well
        for fl in ("--no-default-features --features alloc", "--no-default-features"):
            rc2,out2=sh(f"cargo test --offline {fl} --lib 2>&1 | grep -E '^test result' | head -1", REPO)
            ok = ok and "59 passed; 0 failed" in out2
    return ok, out.strip()
def apply_replace(file, old, new):
    p=os.path.join(REPO,file); s=open(p).read()
    if s.count(old)!=1: return False, f"pattern occurs {s.count(old)} times in {file}"
    open(p,'w').write(s.replace(old,new)); return True, ""
def apply_diff(path):
    rc,out=sh(f"git apply {path}", REPO); return rc==0, out
def build_all():
    # one build of the harness and the CLI per change; the checks then run without rebuilding
    sh("python3 tools/gen_wrappers.py", VERIF)
    rc,out=sh("cd harness && cargo build --release --offline 2>&1 | tail -3", VERIF)
    rc2,out2=sh("cargo build --offline --manifest-path /repo/Cargo.toml --bin aisparser --target-dir /verif/target/cli 2>&1 | tail -3", VERIF)
    return ("error" not in out) and ("error" not in out2), out+out2
def run_check(prop, tier):
    t=time.time(); rc,out=sh(f"AISVERIF_NOBUILD=1 ./check {prop} {tier}", VERIF); dt=time.time()-t
    viol=[l for l in out.splitlines() if l.startswith("VIOLATION")]
    detail=[l.strip() for l in out.splitlines() if l.strip().startswith("sub-check")]
    return rc, dt, (detail[0][:260] if detail else (out.strip().splitlines()[-1][:200] if out.strip() else ""))
def main():
    args=sys.argv[1:]
    only=None
    if "--only" in args: only=args[args.index("--only")+1]
    thorough="--thorough" in args
    allprops="--all-props" in args
    if not clean(): print("refusing: /repo working tree is not clean"); sys.exit(2)
    rows=[]
    items=[]
    if "--benign-seeded" in args:
        # property-preserving changes written by independent sub-agents (benign/<name>/patch.diff)
        for d in sorted(glob.glob(f"{VERIF}/benign/*/patch.diff")):
            items.append(("benign",os.path.basename(os.path.dirname(d)),ALL,("d",d)))
    elif "--benign" in args:
        for (name,file,old,new) in catalogue.BENIGN: items.append(("benign",name,ALL,("r",file,old,new)))
    else:
        for (name,props,file,old,new) in catalogue.MUTANTS: items.append(("mutant",name,props,("r",file,old,new)))
        for d in sorted(glob.glob(f"{VERIF}/mutants/*.diff")):
            props=[]
            meta=d.replace(".diff",".props")
            if os.path.exists(meta): props=open(meta).read().split()
            items.append(("revert",os.path.basename(d),props or ALL,("d",d)))
        if "--seeded" in args:
            for d in sorted(glob.glob(f"{VERIF}/seeded/*/patch.diff")):
                m=json.load(open(os.path.join(os.path.dirname(d),"meta.json")))
                items.append(("seeded",os.path.basename(os.path.dirname(d)),[m["property"]]+m.get("also",[]),("d",d)))
    for kind,name,props,how in items:
        if only and not re.search(only, name): continue
        ok,msg = apply_replace(*how[1:]) if how[0]=="r" else apply_diff(how[1])
        if not ok:
            rows.append((kind,name,"-","APPLY-FAILED",msg[:120])); revert(); print(rows[-1]); continue
        try:
            tp,tout=tests_pass()
            if not tp:
                rows.append((kind,name,"-","not-a-valid-mutant (pinned tests fail or do not build)",tout[:100])); print(rows[-1]); continue
            todo = ALL if (allprops or kind=="benign") else props
            okb,bout=build_all()
            if not okb:
                rows.append((kind,name,"-","harness-or-cli-does-not-build (exit 2 for every check)",bout[-200:])); print(rows[-1]); continue
            from concurrent.futures import ThreadPoolExecutor
            def one(p):
                rc,dt,detail=run_check(p,"quick"); tier="quick"
                if rc==0 and thorough and kind!="benign":
                    rc,dt,detail=run_check(p,"thorough"); tier="thorough"
                return p,rc,dt,detail,tier
            with ThreadPoolExecutor(max_workers=6) as ex:
                results=list(ex.map(one, todo))
            for p,rc,dt,detail,tier in results:
                verdict={0:"silent",1:"DETECTED",2:"infra-error"}.get(rc,f"exit {rc}")
                expected = (p in props) and kind!="benign"
                rows.append((kind,name,p,f"{verdict} ({tier}, {dt:.1f}s)"+("" if expected or rc==0 else " [not labelled]"),detail))
                print(rows[-1], flush=True)
        finally:
            revert()
    # leave the harness and the tool built from the clean tree (the checks' NOBUILD shortcut would otherwise use a changed one)
    if clean(): build_all()
    tag = 'benign-seeded' if '--benign-seeded' in args else 'benign' if '--benign' in args else ('seeded' if '--seeded' in args and only else 'mutants')
    if only and tag == 'mutants': tag = 'partial'
    if '--tag' in args: tag = args[args.index('--tag')+1]
    with open(f"{VERIF}/mutants/RESULTS-{tag}.md","w") as f:
        f.write("| kind | change | property | result | first failing sub-check |\n|---|---|---|---|---|\n")
        for r in rows: f.write("| "+" | ".join(str(x).replace("|","\\|") for x in r)+" |\n")
    missed=[r for r in rows if r[0]!="benign" and r[3].startswith("silent") and "[not labelled]" not in r[3]]
    alarms=[r for r in rows if r[0]=="benign" and r[3].startswith(("DETECTED","infra","exit"))]
    print(f"\n{len(rows)} rows; missed: {len(missed)}; false alarms on benign changes: {len(alarms)}")
    for r in missed+alarms: print("  ",r)
if __name__=="__main__": main()
