#!/usr/bin/env python3
"""Automatically generated mutants of /repo/src against the whole set of quick checks (DESIGN.md 9.9).

Operators (line-based, outside #[cfg(test)] modules): relational swap, == / != swap, && / || swap,
+ / - swap, integer literal +-1, removal of a simple assignment / call statement, Some(x) -> None for
plain returns, `?`-less early `return Err` guards removed.  Candidates are shuffled with a fixed seed.
For each one: apply to /repo's working tree, run the pinned test-suite (a mutant that does not compile or
that the 59 tests kill is of no interest here), then build the harness + tool once and run all twenty quick
checks (NOBUILD) in parallel; /repo is restored straight afterwards.

usage: tools/automutate.py --budget-min 90 [--seed 1] [--max 400] [--skip N] [--files sentence.rs,messages/mod.rs]
Result: mutants/RESULTS-auto.md (appended per mutant, so an interrupted run keeps what it has).
"""
import re, sys, os, random, time, glob, subprocess
from concurrent.futures import ThreadPoolExecutor
sys.path.insert(0, '/verif/tools')
import sensitivity as S

REPO = '/repo'
ALL = S.ALL

def non_test_lines(path):
    """(lineno, text) of lines outside the test module"""
    out = []
    lines = open(path).read().split('\n')
    for i, l in enumerate(lines):
        if '#[cfg(test)]' in l:
            break
        out.append((i, l))
    return lines, out

def candidates(path):
    lines, body = non_test_lines(path)
    cands = []
    for i, l in body:
        s = l.strip()
        if not s or s.startswith('//') or s.startswith('#[') or s.startswith('use ') or s.startswith('pub use') or s.startswith('///'):
            continue
        code = l.split('//')[0]
        def add(op, new):
            if new != l:
                cands.append((path, i, op, l, new))
        # relational
        for a, b in (('<=', '<'), ('>=', '>')):
            for m in re.finditer(re.escape(a), code):
                add(f'{a} -> {b}', l[:m.start()] + b + l[m.end():])
        for m in re.finditer(r'(?<![<>=!\-])<(?![<=])\s', code):
            if '::<' in code or 'Vec<' in code or 'Option<' in code or 'Result<' in code or 'fn ' in code or 'impl' in code or '-> ' in code:
                continue
            add('< -> <=', l[:m.start()] + '<= ' + l[m.end():])
        for m in re.finditer(r'(?<![<>=!\-])\s>(?![>=])\s', code):
            if '->' in code or '=>' in code or 'fn ' in code or 'impl' in code or '<' in code:
                continue
            add('> -> >=', l[:m.start()] + ' >= ' + l[m.end():])
        for m in re.finditer(r'==', code):
            add('== -> !=', l[:m.start()] + '!=' + l[m.end():])
        for m in re.finditer(r'!=', code):
            add('!= -> ==', l[:m.start()] + '==' + l[m.end():])
        for m in re.finditer(r'&&', code):
            add('&& -> ||', l[:m.start()] + '||' + l[m.end():])
        for m in re.finditer(r'\|\|', code):
            if re.search(r'\|\w*\|', code) and 'if ' not in code:
                continue
            add('|| -> &&', l[:m.start()] + '&&' + l[m.end():])
        # arithmetic
        for m in re.finditer(r'(?<=[\w\)\]])\s\+\s(?=[\w\(])', code):
            add('+ -> -', l[:m.start()] + ' - ' + l[m.end():])
        for m in re.finditer(r'(?<=[\w\)\]])\s-\s(?=[\w\(])', code):
            add('- -> +', l[:m.start()] + ' + ' + l[m.end():])
        for m in re.finditer(r'(?<=[\w\)\]])\s\*\s(?=[\w\(])', code):
            add('* -> /', l[:m.start()] + ' / ' + l[m.end():])
        for m in re.finditer(r'(?<=[\w\)\]])\s/\s(?=[\w\(])', code):
            add('/ -> *', l[:m.start()] + ' * ' + l[m.end():])
        for m in re.finditer(r'<<|>>', code):
            if 'Vec<' in code or 'Option<' in code or '::<' in code:
                continue
            add(f'{m.group(0)} swapped', l[:m.start()] + ('>>' if m.group(0) == '<<' else '<<') + l[m.end():])
        # integer literals (not in attribute / array-size positions)
        for m in re.finditer(r'(?<![\w\.])(\d[\d_]*)(u8|u16|u32|u64|usize|i32|i64|i16)?(?![\w\.])', code):
            txt = m.group(1).replace('_', '')
            if not txt.isdigit():
                continue
            v = int(txt)
            suf = m.group(2) or ''
            for nv in (v + 1, v - 1):
                if nv < 0:
                    continue
                add(f'{v} -> {nv}', l[:m.start()] + str(nv) + suf + l[m.end():])
        # statement removal
        if re.match(r'^\s*self\.\w+(\.\w+\(.*\))?\s*(=|\+=|-=)?.*;\s*$', code) and 'let ' not in code and 'return' not in code:
            add('statement removed', re.match(r'^\s*', l).group(0) + '// removed')
        if re.match(r'^\s*\w+(\.\w+)*\.(clear|push|truncate|extend_from_slice|swap)\(.*\);\s*$', code):
            add('statement removed', re.match(r'^\s*', l).group(0) + '// removed')
        # boolean literals
        for m in re.finditer(r'\btrue\b', code):
            add('true -> false', l[:m.start()] + 'false' + l[m.end():])
        for m in re.finditer(r'\bfalse\b', code):
            add('false -> true', l[:m.start()] + 'true' + l[m.end():])
    return lines, cands

def apply(path, lineno, new):
    lines = open(path).read().split('\n')
    lines[lineno] = new
    open(path, 'w').write('\n'.join(lines))

def main():
    args = sys.argv[1:]
    budget = int(args[args.index('--budget-min') + 1]) if '--budget-min' in args else 60
    seed = int(args[args.index('--seed') + 1]) if '--seed' in args else 1
    maxn = int(args[args.index('--max') + 1]) if '--max' in args else 100000
    skip = int(args[args.index('--skip') + 1]) if '--skip' in args else 0
    only = args[args.index('--files') + 1].split(',') if '--files' in args else None
    if not S.clean():
        print('refusing: /repo working tree is not clean'); sys.exit(2)
    files = sorted(glob.glob(f'{REPO}/src/**/*.rs', recursive=True))
    # a file that no `mod` declaration includes is not compiled (src/messages/group_assignment_command.rs)
    modtext = open(f'{REPO}/src/messages/mod.rs').read() + open(f'{REPO}/src/lib.rs').read()
    files = [f for f in files if '/bin/' in f or os.path.basename(f) in ('lib.rs', 'mod.rs') or re.search(r'\bmod\s+' + re.escape(os.path.basename(f)[:-3]) + r'\b', modtext)]
    if only:
        files = [f for f in files if any(f.endswith(o) for o in only)]
    cands = []
    for f in files:
        _, c = candidates(f)
        cands.extend(c)
    # no duplicates; all non-literal operators first (there are few), then the literal changes, each group shuffled
    seen = set(); uniq = []
    for c in cands:
        key = (c[0], c[1], c[4])
        if key not in seen:
            seen.add(key); uniq.append(c)
    rng = random.Random(seed)
    structural = [c for c in uniq if not c[2][0].isdigit()]
    literal = [c for c in uniq if c[2][0].isdigit()]
    rng.shuffle(structural); rng.shuffle(literal)
    cands = (structural + literal)[skip:]
    print(f'{len(cands)} candidate mutants in {len(files)} files; budget {budget} min', flush=True)
    out = f'{S.VERIF}/mutants/RESULTS-auto.md'
    new_file = not os.path.exists(out)
    fh = open(out, 'a')
    if new_file:
        fh.write('| location | operator | original | mutated | outcome | detected by |\n|---|---|---|---|---|---|\n')
    # mutants already recorded by an earlier run are not repeated
    recorded = set()
    for l in open(out):
        if l.startswith('| src/'):
            c = [x.strip() for x in l.split('|')]
            recorded.add((c[1], c[2], c[4]))
    t0 = time.time(); done = 0; tally = {}
    for (path, i, op, old, new) in cands:
        if (path.replace(REPO + '/', '') + f':{i+1}', op, f"`{new.strip()[:90]}`") in recorded:
            continue
        if time.time() - t0 > budget * 60 or done >= maxn:
            break
        apply(path, i, new)
        outcome = ''; det = ''
        try:
            rc, o = S.sh("cargo test --workspace --no-fail-fast --offline 2>&1 | grep -E '^test result|^error' | head -3", REPO, timeout=900)
            if 'error' in o and 'test result' not in o:
                outcome = 'does not compile'
            elif '59 passed; 0 failed' not in o:
                outcome = 'killed by the pinned tests'
            else:
                # the other two feature sets must build, otherwise every check exits 2 (not a verdict)
                okb, bout = S.build_all()
                if not okb:
                    outcome = 'harness / other feature sets do not build'
                else:
                    with ThreadPoolExecutor(max_workers=10) as ex:
                        res = list(ex.map(lambda p: (p,) + S.run_check(p, 'quick'), ALL))
                    hit = [p for (p, rc, dt, d) in res if rc == 1]
                    infra = [p for (p, rc, dt, d) in res if rc not in (0, 1)]
                    if hit:
                        outcome = 'DETECTED'; det = ' '.join(hit)
                    elif infra:
                        outcome = 'infra-error'; det = ' '.join(infra)
                    else:
                        outcome = 'SURVIVED all 20 quick checks'
        finally:
            S.revert()
        done += 1
        tally[outcome.split(' ')[0]] = tally.get(outcome.split(' ')[0], 0) + 1
        rel = path.replace(REPO + '/', '')
        row = f"| {rel}:{i+1} | {op} | `{old.strip()[:90]}` | `{new.strip()[:90]}` | {outcome} | {det} |"
        fh.write(row.replace('\n', ' ') + '\n'); fh.flush()
        print(done, row, flush=True)
    if S.clean():
        S.build_all()
    print('tally:', tally)

if __name__ == '__main__':
    main()
